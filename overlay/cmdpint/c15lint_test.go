//go:build verif

// C15 end to end ("outages degrade to warnings"): the whole `pint lint` command, in process,
// against simulated Prometheus servers whose upstreams are unavailable in every way the
// property lists. Config loading, server discovery, the scan workers, every online check,
// report folding and the exit status all run for real.
//
//   - failover: on every configured server the earlier upstreams are unavailable and the last
//     one is healthy and holds the same data: the report, the console output and the exit status
//     equal those of a run against healthy servers (addresses aside).
//   - outage: every upstream of every server is unavailable: the command finishes, everything the
//     offline checks say is still said, every online check says "unable to run checks" with
//     severity Warning (Bug when the server is `required`) and nothing else, so that without
//     `required` an outage alone never fails the run.
package main

import (
	"encoding/json"
	"fmt"
	"hash/fnv"
	"regexp"
	"slices"
	"sort"
	"strings"
	"testing"
	"time"

	"pgregory.net/rapid"

	"github.com/cloudflare/pint/internal/checks"
	"github.com/cloudflare/pint/verifsim/detsim"
	"github.com/cloudflare/pint/verifsim/simprom"
)

type lintServer struct {
	Required bool       `json:"required"`
	Modes    [][]string `json:"modes"` // per upstream (uri first, then failover list): behaviours cycled over connection attempts
}

type C15LintScenario struct {
	Sched     detsim.SchedConfig `json:"sched"`
	Workers   int                `json:"workers"`
	Kind      string             `json:"kind"` // "outage" or "failover"
	Files     []simFile          `json:"files"`
	Servers   []lintServer       `json:"servers"`
	ConfigVar int                `json:"config_variant"`
	FailOn    string             `json:"fail_on"`
}

var lintUnavailable = []string{simprom.ModeRefused, simprom.ModeStall, simprom.ModeHTTP500, simprom.ModeHTTP502, simprom.ModeHTTP503, simprom.ModeJSONServerErr, simprom.ModeReset, simprom.ModeDialBlackHole}

func drawC15Lint(rt *rapid.T) C15LintScenario {
	var sc C15LintScenario
	sc.Sched = detsim.DrawSched(rt, 400)
	sc.Workers = []int{1, 2, 4, 8}[rapid.IntRange(0, 3).Draw(rt, "workers")]
	sc.Kind = []string{"outage", "outage", "failover"}[rapid.IntRange(0, 2).Draw(rt, "kind")]
	sc.ConfigVar = rapid.IntRange(0, 2).Draw(rt, "cfg")
	sc.FailOn = []string{"bug", "bug", "warning", "fatal"}[rapid.IntRange(0, 3).Draw(rt, "failon")]
	nf := rapid.IntRange(1, 3).Draw(rt, "nfiles")
	for i := 0; i < nf; i++ {
		strict := rapid.IntRange(0, 2).Draw(rt, "strict") > 0
		dir := "rules"
		if !strict {
			dir = "relaxed"
		}
		sc.Files = append(sc.Files, simFile{Path: fmt.Sprintf("%s/f%d.yml", dir, i), Content: drawRuleFile(rt, strict)})
	}
	ns := rapid.IntRange(1, 2).Draw(rt, "servers")
	for i := 0; i < ns; i++ {
		var sv lintServer
		sv.Required = rapid.IntRange(0, 3).Draw(rt, "required") == 0
		nu := rapid.IntRange(1, 3).Draw(rt, "upstreams")
		if sc.Kind == "failover" && nu == 1 {
			nu = 2
		}
		for u := 0; u < nu; u++ {
			if sc.Kind == "failover" && u == nu-1 {
				sv.Modes = append(sv.Modes, nil) // healthy
				continue
			}
			k := rapid.IntRange(1, 3).Draw(rt, "nmodes")
			var ms []string
			for j := 0; j < k; j++ {
				ms = append(ms, lintUnavailable[rapid.IntRange(0, len(lintUnavailable)-1).Draw(rt, "mode")])
			}
			sv.Modes = append(sv.Modes, ms)
		}
		sc.Servers = append(sc.Servers, sv)
	}
	return sc
}

func c15LintConfig(sc *C15LintScenario) string {
	var sb strings.Builder
	sb.WriteString("parser {\n  relaxed = [\"relaxed/.*\"]\n}\n")
	for i, sv := range sc.Servers {
		fmt.Fprintf(&sb, "prometheus \"prom%c\" {\n  uri = \"http://p%du0:9090\"\n", 'a'+i, i)
		if len(sv.Modes) > 1 {
			var fo []string
			for u := 1; u < len(sv.Modes); u++ {
				fo = append(fo, fmt.Sprintf("\"http://p%du%d:9090\"", i, u))
			}
			fmt.Fprintf(&sb, "  failover = [%s]\n", strings.Join(fo, ", "))
		}
		fmt.Fprintf(&sb, "  timeout = \"5s\"\n  required = %v\n  rateLimit = 2000000000\n  concurrency = %d\n}\n", sv.Required, 2+i*3)
	}
	// the rule blocks of the C11 workloads, without their prometheus blocks
	full := c11Config(sc.ConfigVar, 1, false)
	if i := strings.Index(full, "rule {"); i >= 0 {
		sb.WriteString(full[i:])
	}
	return sb.String()
}

func c15LintEnv(sc *C15LintScenario, workers int, sched detsim.SchedConfig, healthy bool) simEnv {
	args := []string{"--workers", fmt.Sprint(workers), "--no-color", "--log-level", "error", "lint", "--fail-on", sc.FailOn, "--min-severity", "info", "--json", "report.json", "rules", "relaxed"}
	files := append([]simFile{}, sc.Files...)
	files = append(files, simFile{Path: ".pint.hcl", Content: c15LintConfig(sc)}, simFile{Path: "relaxed/.keep", Content: ""}, simFile{Path: "rules/.keep", Content: ""})
	env := simEnv{Files: files, Args: args, Sched: sched, StartAt: 90 * time.Second, JSONOut: "report.json"}
	for i, sv := range sc.Servers {
		for u, ms := range sv.Modes {
			s := simServer{Host: fmt.Sprintf("p%du%d:9090", i, u), DB: standardDB}
			if !healthy {
				s.Modes = ms
			}
			env.Servers = append(env.Servers, s)
		}
	}
	return env
}

var lintURI = regexp.MustCompile(`http://p[0-9]+u[0-9]+:9090`)

func normLint(s string) string { return lintURI.ReplaceAllString(s, "http://<upstream>") }

func lintKey(r map[string]any) string {
	return fmt.Sprintf("%v|%v|%v|%v|%v", r["path"], r["lines"], r["reporter"], r["problem"], r["severity"])
}

func TestC15Lint(t *testing.T) {
	discardLogs()
	detsim.Main(t, detsim.Prop[C15LintScenario]{ID: "C15", Draw: drawC15Lint, Run: runC15Lint})
}

func runC15Lint(t *testing.T, sc C15LintScenario, record bool) *detsim.Outcome {
	out := &detsim.Outcome{Probes: map[string]int{}, Faults: map[string]int{}}
	base := runPint(t, c15LintEnv(&sc, 1, detsim.SchedConfig{Order: detsim.OrderOldest}, true), false)
	if !base.Live {
		out.AddViolation("liveness", "healthy baseline did not finish")
		out.Poisoned = true
		return out
	}
	r := runPint(t, c15LintEnv(&sc, sc.Workers, sc.Sched, false), record)
	out.Sched = r.Stats
	out.SimNanos = base.SimNs + r.SimNs
	for k, v := range r.Applied {
		out.Faults[k] += v
	}
	who := fmt.Sprintf("`pint lint` during %s (--workers %d, servers %+v)", sc.Kind, sc.Workers, sc.Servers)
	if !r.Live {
		out.AddViolation("liveness", who+": the command did not finish (leak: "+r.Leak+")")
		out.Poisoned = true
		return out
	}
	if r.Leak != "" {
		out.AddViolation("goroutine-leak", who+": "+r.Leak)
	}
	if record {
		fmt.Printf("=== healthy console ===\n%s\n=== healthy error: %q\n=== %s console ===\n%s\n=== %s error: %q\n", base.Stderr, base.Err, sc.Kind, r.Stderr, sc.Kind, r.Err)
	}
	digest := fnv.New64a()
	fmt.Fprintf(digest, "%s|%s", normLint(r.JSON), r.Err)
	out.Digest = digest.Sum64()
	var want, got []map[string]any
	if err := json.Unmarshal([]byte(base.JSON), &want); err != nil {
		out.AddViolation("no-report", "healthy baseline wrote no JSON report: "+err.Error()+" (error: "+base.Err+")")
		return out
	}
	if err := json.Unmarshal([]byte(r.JSON), &got); err != nil {
		out.AddViolation("no-report", who+": no JSON report was written: "+err.Error()+" (command error: "+r.Err+")")
		return out
	}
	switch sc.Kind {
	case "failover":
		if normLint(r.JSON) != normLint(base.JSON) {
			out.AddViolation("failover-changed-verdict", fmt.Sprintf("%s: a healthy upstream with identical data was available on every server, the JSON report differs from the healthy run: %s", who, firstDiff(normLint(base.JSON), normLint(r.JSON))))
		}
		if normLint(r.Stderr) != normLint(base.Stderr) {
			out.AddViolation("failover-changed-verdict", fmt.Sprintf("%s: console output differs from the healthy run: %s", who, firstDiff(normLint(base.Stderr), normLint(r.Stderr))))
		}
		if r.Err != base.Err {
			out.AddViolation("failover-changed-verdict", fmt.Sprintf("%s: exit status differs from the healthy run: %q vs %q", who, r.Err, base.Err))
		}
		if len(r.Applied) > 0 {
			out.Probes["lint_failover_equals_healthy"]++
			out.Nontrivial = len(want) > 0
		}
	case "outage":
		inBase := map[string]int{}
		for _, w := range want {
			if !slices.Contains(checks.OnlineChecks, fmt.Sprint(w["reporter"])) {
				inBase[lintKey(w)]++
			}
		}
		allRequired, anyRequired := true, false
		for _, sv := range sc.Servers {
			allRequired = allRequired && sv.Required
			anyRequired = anyRequired || sv.Required
		}
		worst := "" // is there anything that must fail the run?
		sevRank := map[string]int{"Information": 0, "Warning": 1, "Bug": 2, "Fatal": 3}
		failRank := map[string]int{"warning": 1, "bug": 2, "fatal": 3}[sc.FailOn]
		unable := 0
		for _, g := range got {
			sev := fmt.Sprint(g["severity"])
			if sevRank[sev] >= failRank {
				worst = lintKey(g)
			}
			if g["problem"] == "unable to run checks" {
				unable++
				out.Probes["lint_outage_reported_as_unable"]++
				ok := sev == "Warning" && !allRequired || sev == "Bug" && anyRequired
				if !ok {
					out.AddViolation("outage-wrong-severity", fmt.Sprintf("%s: outage surfaced as %s", who, lintKey(g)))
				}
				if !slices.Contains(checks.OnlineChecks, fmt.Sprint(g["reporter"])) {
					out.AddViolation("spurious-finding-during-outage", fmt.Sprintf("%s: an offline check reports the outage: %s", who, lintKey(g)))
				}
				continue
			}
			k := lintKey(g)
			if inBase[k] > 0 {
				inBase[k]--
				out.Probes["lint_offline_part_still_reported"]++
				continue
			}
			out.AddViolation("spurious-finding-during-outage", fmt.Sprintf("%s: every upstream is unavailable, yet the report has an entry that is neither an offline check's finding of the healthy run nor \"unable to run checks\": %s", who, k))
		}
		var lost []string
		for k, n := range inBase {
			if n > 0 {
				lost = append(lost, k)
			}
		}
		sort.Strings(lost)
		if len(lost) > 0 {
			out.AddViolation("offline-finding-lost-during-outage", fmt.Sprintf("%s: findings of offline checks are missing: %v", who, lost))
		}
		// the exit status follows from what is reported, nothing else: an outage is not a crash
		if worst == "" && r.Err != "" {
			out.AddViolation("outage-fails-the-run", fmt.Sprintf("%s: nothing at or above --fail-on %s is reported, yet the command failed: %s", who, sc.FailOn, r.Err))
		}
		if worst != "" && r.Err == "" {
			out.AddViolation("exit-status-differs", fmt.Sprintf("%s: %s is reported with --fail-on %s but the command succeeded", who, worst, sc.FailOn))
		}
		if r.Err != "" && !strings.Contains(r.Err, "problems") && !strings.Contains(r.Err, "found") {
			out.Probes["lint_other_error"]++
		}
		if unable > 0 {
			out.Nontrivial = true
			out.Probes["lint_outage_runs"]++
		}
	}
	out.Summary = map[string]any{"kind": sc.Kind, "workers": sc.Workers, "reports_healthy": len(want), "reports": len(got), "error": r.Err}
	return out
}
