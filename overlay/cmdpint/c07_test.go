//go:build verif

// C07: control comments suppress exactly the targeted check on the targeted
// rules - with the clock that decides snoozes under the simulator's control.
package main

import (
	"context"
	"fmt"
	"hash/fnv"
	"os"
	"path/filepath"
	"regexp"
	"sort"
	"strconv"
	"strings"
	"testing"
	"time"

	"pgregory.net/rapid"

	"github.com/cloudflare/pint/internal/checks"
	"github.com/cloudflare/pint/internal/config"
	"github.com/cloudflare/pint/internal/discovery"
	"github.com/cloudflare/pint/internal/git"
	"github.com/cloudflare/pint/internal/promapi"
	"github.com/cloudflare/pint/internal/reporter"
	"github.com/cloudflare/pint/internal/verifhook"
	"github.com/cloudflare/pint/verifsim/detsim"
	"github.com/cloudflare/pint/verifsim/simnet"
	"github.com/cloudflare/pint/verifsim/simprom"
)

const (
	formDisable = iota
	formSnooze
	formFileDisable
	formFileSnooze
)

var formNames = []string{"disable", "snooze", "file/disable", "file/snooze"}

type C07Scenario struct {
	Sched     detsim.SchedConfig `json:"sched"`
	Workers   int                `json:"workers"`
	Files     []simFile          `json:"files"`
	Servers   int                `json:"servers"`
	ConfigVar int                `json:"config_variant"`
	StartAtS  int64              `json:"start_at_s"` // simulated seconds after 2000-01-01T00:00:00Z at which pint runs
	Pick      int                `json:"pick"`       // which reported problem is targeted (index mod number of problems)
	Spelling  int                `json:"spelling"`   // 0 reporter name, 1 check.String(), 2 name(+tag)
	Form      int                `json:"form"`
	Placement int                `json:"placement"` // 0 line above the rule, 1 trailing comment on a rule line, 2 own line between fields
	PlaceK    int                `json:"place_k"`
	TOffsetS  int64              `json:"t_offset_s"` // snooze time relative to the instant pint runs
	TFormat   int                `json:"t_format"`   // 0 RFC3339 Z, 1 +02:00, 2 -07:00, 3 date only
	CRLF      bool               `json:"crlf"`       // rule files use Windows line endings
	Watch     bool               `json:"watch"`      // also cross the snooze deadline inside the watch loop
	IntervalS int64              `json:"interval_s"`
}

func c07Config(variant, servers int) string {
	var sb strings.Builder
	sb.WriteString("parser {\n  relaxed = [\"relaxed/.*\"]\n}\n")
	for i := 0; i < servers; i++ {
		fmt.Fprintf(&sb, "prometheus \"prom%c\" {\n  uri = \"http://prom%d:9090\"\n  timeout = \"30s\"\n  rateLimit = 2000000000\n  tags = [\"t%d\", \"all\"]\n}\n", 'a'+i, i, i)
	}
	if variant >= 1 {
		sb.WriteString("rule {\n  match { kind = \"alerting\" }\n  label \"severity\" {\n    required = true\n    severity = \"bug\"\n  }\n  annotation \"summary\" {\n    required = true\n    severity = \"warning\"\n  }\n}\n")
		sb.WriteString("rule {\n  match { kind = \"recording\" }\n  aggregate \".+\" {\n    keep = [\"job\"]\n    severity = \"warning\"\n  }\n}\n")
	}
	if variant >= 1 {
		// checks switched on explicitly for some rules: a control comment still wins
		sb.WriteString("rule {\n  match { kind = \"alerting\" }\n  enable = [\"alerts/comparison\", \"promql/regexp\", \"alerts/template\"]\n}\n")
		sb.WriteString("rule {\n  match { kind = \"recording\" }\n  enable = [\"promql/fragile\", \"promql/aggregate\"]\n}\n")
	}
	if variant >= 2 {
		// checks from a locked block ignore rule-level disable / snooze comments
		sb.WriteString("rule {\n  locked = true\n  label \"lockedlabel\" {\n    required = true\n    severity = \"warning\"\n  }\n  annotation \"lockedannotation\" {\n    required = true\n    severity = \"bug\"\n  }\n}\n")
		if servers > 0 {
			sb.WriteString("rule {\n  match { kind = \"alerting\" }\n  alerts {\n    range = \"1d\"\n    step = \"5m\"\n    resolve = \"5m\"\n  }\n}\n")
		}
	}
	if variant >= 3 {
		// the very same check as the unlocked block above, once more from a locked block that only
		// covers one directory: there a rule comment may silence the unlocked copy, not this one
		sb.WriteString("rule {\n  locked = true\n  match {\n    path = \"rules/.*\"\n    kind = \"recording\"\n  }\n  aggregate \".+\" {\n    keep = [\"job\"]\n    severity = \"warning\"\n  }\n}\n")
	}
	return sb.String()
}

func drawC07(rt *rapid.T) C07Scenario {
	var sc C07Scenario
	sc.Sched = detsim.DrawSched(rt, 200)
	sc.Workers = []int{1, 2, 4, 10}[rapid.IntRange(0, 3).Draw(rt, "workers")]
	sc.Servers = []int{0, 0, 1, 1, 2}[rapid.IntRange(0, 4).Draw(rt, "servers")]
	sc.ConfigVar = rapid.IntRange(0, 3).Draw(rt, "cfg")
	nf := rapid.IntRange(1, 3).Draw(rt, "nfiles")
	for i := 0; i < nf; i++ {
		strict := rapid.IntRange(0, 2).Draw(rt, "strict") > 0
		dir := "rules"
		if !strict {
			dir = "relaxed"
		}
		sc.Files = append(sc.Files, simFile{Path: fmt.Sprintf("%s/f%d.yml", dir, i), Content: drawRuleFileC(rt, strict, true)})
	}
	sc.Files = append(sc.Files, simFile{Path: ".pint.hcl", Content: c07Config(sc.ConfigVar, sc.Servers)})
	sc.StartAtS = rapid.Int64Range(100, 40*86400).Draw(rt, "startAt")
	sc.Pick = rapid.IntRange(0, 1000).Draw(rt, "pick")
	sc.Spelling = rapid.IntRange(0, 2).Draw(rt, "spelling")
	sc.Form = rapid.IntRange(0, 3).Draw(rt, "form")
	sc.Placement = rapid.IntRange(0, 2).Draw(rt, "placement")
	sc.PlaceK = rapid.IntRange(0, 6).Draw(rt, "placeK")
	sc.TOffsetS = []int64{-40 * 86400, -86400, -3600, -61, -2, 2, 61, 3600, 86400, 400 * 86400}[rapid.IntRange(0, 9).Draw(rt, "toff")]
	sc.TFormat = rapid.IntRange(0, 3).Draw(rt, "tfmt")
	sc.CRLF = rapid.IntRange(0, 4).Draw(rt, "crlf") == 0
	sc.Watch = rapid.IntRange(0, 3).Draw(rt, "watch") == 0
	sc.IntervalS = []int64{1, 30, 600, 3600}[rapid.IntRange(0, 3).Draw(rt, "interval")]
	return sc
}

// normReport is what the property compares: (rule, reporter, summary, diagnostics, lines).
type normReport struct {
	Path, Rule            string
	RuleFirst             int
	Reporter, Summary     string
	Severity              string
	First, Last           int
	Diags                 string
}

func (n normReport) key() string {
	return fmt.Sprintf("%s|%s@%d|%s|%s|%s|%d-%d|%s", n.Path, n.Rule, n.RuleFirst, n.Reporter, n.Summary, n.Severity, n.First, n.Last, n.Diags)
}

type lineMap func(path string, line int) int

var lineRefRe = regexp.MustCompile(`([A-Za-z0-9_./-]+\.ya?ml):(\d+)`)

// shiftRefs maps "file.yml:N" references inside messages through the line map ("apart from the line shift").
func shiftRefs(msg string, lm lineMap) string {
	return lineRefRe.ReplaceAllStringFunc(msg, func(m string) string {
		sm := lineRefRe.FindStringSubmatch(m)
		n, _ := strconv.Atoi(sm[2])
		return fmt.Sprintf("%s:%d", sm[1], lm(sm[1], n))
	})
}

func normalise(path, ruleName string, ruleFirst int, p checks.Problem, lm lineMap) normReport {
	var ds []string
	for _, d := range p.Diagnostics {
		d.Message = shiftRefs(d.Message, lm)
		if p.Reporter == checks.SyntaxCheckName {
			// the column range of a syntax error comes from the vendored PromQL parser, which
			// recycles parsers through a sync.Pool without resetting the end position it reports
			// for some errors: it depends on what the process parsed before (DESIGN "Observations"),
			// not on any control comment
			d.FirstColumn, d.LastColumn = 0, 0
		}
		var pos []string
		for _, pr := range d.Pos {
			pos = append(pos, fmt.Sprintf("%d:%d-%d", lm(path, pr.Line), pr.FirstColumn, pr.LastColumn))
		}
		ds = append(ds, fmt.Sprintf("%s[%d-%d]@%s", d.Message, d.FirstColumn, d.LastColumn, strings.Join(pos, ",")))
	}
	sort.Strings(ds)
	return normReport{
		Path: path, Rule: ruleName, RuleFirst: lm(path, ruleFirst), Reporter: p.Reporter, Summary: p.Summary, Severity: p.Severity.String(),
		First: lm(path, p.Lines.First), Last: lm(path, p.Lines.Last), Diags: strings.Join(ds, ";"),
	}
}

type instance struct {
	Reporter, String string
	Online           bool
	Always           bool
	Tags             []string
	Problems         []checks.Problem
}

type entryView struct {
	Path        string
	Rule        string
	First, Last int
	Instances   []instance
}

type lintResult struct {
	Reports []reporter.Report
	Entries []entryView
	Err     string
	Now     time.Time
	Stats   detsim.SchedStats
	SimNs   int64
	Live    bool
	Leak    string
	// watch mode: reports of the iterations of the scan loop, stamped with the simulated instant
	Iterations []watchIter
}

type watchIter struct {
	At      time.Time
	Reports []reporter.Report
}

// lintStructured mirrors actionLint up to the summary (real config loading, discovery,
// generator and checkRules fan-out), but keeps the reports as structures. With direct=true it
// also runs every check instance of every entry on its own, which tells which instance says what.
func lintStructured(t *testing.T, files []simFile, servers, workers int, sched detsim.SchedConfig, startAt time.Duration, direct bool, watch *watchPlan, record bool) lintResult {
	runMu.Lock()
	defer runMu.Unlock()
	var res lintResult
	res.Live = true
	dir, err := os.MkdirTemp("", "verif-c07-")
	if err != nil {
		t.Fatal(err)
	}
	defer os.RemoveAll(dir)
	if err := writeTree(dir, files); err != nil {
		t.Fatal(err)
	}
	for _, d := range []string{"rules", "relaxed"} {
		_ = os.MkdirAll(filepath.Join(dir, d), 0o755)
	}
	oldwd, _ := os.Getwd()
	if err := os.Chdir(dir); err != nil {
		t.Fatal(err)
	}
	defer func() { _ = os.Chdir(oldwd) }()
	normalisePools()
	defer restoreGC()

	res.Leak = detsim.Bubble(t, func() {
		s := detsim.NewSched(sched, record, detsim.States)
		verifhook.Yield = s.HookYield
		verifhook.LockerWrap = s.WrapLocker
		defer func() { verifhook.Yield = nil; verifhook.LockerWrap = nil }()
		nw := simnet.New()
		simnet.Use(nw)
		t0 := time.Now()
		if startAt > 0 {
			time.Sleep(startAt)
		}
		res.Now = time.Now()
		var srvs []*simprom.Server
		for i := 0; i < servers; i++ {
			be := simprom.NewEngineBackend(standardDB(res.Now))
			be.Metadata["http_requests_total"] = "counter"
			be.Metadata["errors_total"] = "counter"
			srv := simprom.NewServer(i, fmt.Sprintf("prom%d:9090", i), s, be)
			srv.Start(nw, nil)
			srvs = append(srvs, srv)
		}
		s.Start()
		done := make(chan struct{})
		go func() {
			defer close(done)
			s.Name("main")
			s.Yield("start", "main")
			cfg, fromFile, err := config.Load(".pint.hcl", true)
			if err != nil {
				res.Err = "config: " + err.Error()
				return
			}
			if fromFile {
				cfg.Parser.Exclude = append(cfg.Parser.Exclude, ".pint.hcl")
			}
			offline := servers == 0
			if offline {
				cfg.DisableOnlineChecks()
			}
			find := func() ([]discovery.Entry, error) {
				return discovery.NewGlobFinder(
					[]string{"rules", "relaxed"},
					git.NewPathFilter(
						config.MustCompileRegexes(cfg.Parser.Include...),
						config.MustCompileRegexes(cfg.Parser.Exclude...),
						config.MustCompileRegexes(cfg.Parser.Relaxed...),
					),
					parseSchema(cfg.Parser.Schema), parseNames(cfg.Parser.Names), cfg.Owners.CompileAllowed(),
				).Find()
			}
			gen := config.NewPrometheusGenerator(cfg, metricsRegistry)
			defer gen.Stop()
			if err = gen.GenerateStatic(); err != nil {
				res.Err = "generator: " + err.Error()
				return
			}
			if watch != nil {
				// the real scan loop of `pint watch`: ticker, collector, shared generator and cache
				ctx, cancel := context.WithCancel(context.WithValue(context.Background(), config.CommandKey, config.WatchCommand))
				collector := newProblemCollector(cfg, func(context.Context) ([]string, error) { return []string{"rules", "relaxed"}, nil }, checks.Information, 0, true)
				ack := make(chan bool, 1)
				stop := startTimer(ctx, workers, offline, gen, parseSchema(cfg.Parser.Schema), parseNames(cfg.Parser.Names), cfg.Owners.CompileAllowed(), watch.Interval, ack, collector)
				var last *reporter.Summary
				deadline := time.Now().Add(watch.Total)
				for time.Now().Before(deadline) {
					time.Sleep(watch.Poll)
					collector.lock.Lock()
					cur := collector.summary
					collector.lock.Unlock()
					if cur != nil && cur != last {
						last = cur
						res.Iterations = append(res.Iterations, watchIter{At: time.Now(), Reports: append([]reporter.Report{}, cur.Reports()...)})
					}
				}
				cancel()
				stop <- true
				<-ack
				return
			}
			entries, err := find()
			if err != nil {
				res.Err = "discovery: " + err.Error()
				return
			}
			ctx := context.WithValue(context.Background(), config.CommandKey, config.LintCommand)
			summary, err := checkRules(ctx, workers, offline, gen, cfg, entries)
			if err != nil {
				res.Err = "checkRules: " + err.Error()
				return
			}
			summary.SortReports()
			summary.Dedup()
			res.Reports = summary.Reports()
			if direct {
				dctx := context.WithValue(ctx, promapi.AllPrometheusServers, gen.Servers())
				for _, sset := range cfg.Check {
					settings, _ := sset.Decode()
					dctx = context.WithValue(dctx, checks.SettingsKey(sset.Name), settings)
				}
				for _, e := range entries {
					ev := entryView{Path: e.Path.Name, Rule: e.Rule.Name(), First: e.Rule.Lines.First, Last: e.Rule.Lines.Last}
					for _, c := range cfg.GetChecksForEntry(dctx, gen, e) {
						in := instance{Reporter: c.Reporter(), String: c.String(), Online: c.Meta().Online, Always: c.Meta().AlwaysEnabled}
						if in.Online {
							for _, fg := range gen.Servers() {
								if strings.HasSuffix(in.String, "("+fg.Name()+")") {
									in.Tags = fg.Tags()
								}
							}
						}
						in.Problems = c.Check(dctx, e, entries)
						ev.Instances = append(ev.Instances, in)
					}
					res.Entries = append(res.Entries, ev)
				}
			}
		}()
		select {
		case <-done:
		case <-time.After(400 * 24 * time.Hour):
			res.Live = false
		}
		res.SimNs = int64(time.Since(t0))
		s.Stop()
		res.Stats = s.Stats()
		for _, srv := range srvs {
			srv.Close()
		}
		nw.Close()
	})
	return res
}

type watchPlan struct {
	Interval, Total, Poll time.Duration
}

func TestC07(t *testing.T) {
	discardLogs()
	detsim.Main(t, detsim.Prop[C07Scenario]{ID: "C07", Draw: drawC07, Run: runC07})
}

func fmtSnoozeTime(ts time.Time, format int) string {
	switch format {
	case 1:
		return ts.In(time.FixedZone("", 2*3600)).Format(time.RFC3339)
	case 2:
		return ts.In(time.FixedZone("", -7*3600)).Format(time.RFC3339)
	default:
		return ts.UTC().Format(time.RFC3339)
	}
}

func multiset(rs []normReport) map[string]int {
	m := map[string]int{}
	for _, r := range rs {
		m[r.key()]++
	}
	return m
}

func diffMultiset(want, got map[string]int) string {
	var sb strings.Builder
	keys := map[string]bool{}
	for k := range want {
		keys[k] = true
	}
	for k := range got {
		keys[k] = true
	}
	ks := []string{}
	for k := range keys {
		ks = append(ks, k)
	}
	sort.Strings(ks)
	for _, k := range ks {
		if want[k] != got[k] {
			fmt.Fprintf(&sb, "\n   expected x%d, got x%d: %s", want[k], got[k], clip(k, 300))
		}
	}
	return sb.String()
}

// onDisk converts the rule files to the line endings of the scenario (the model keeps LF).
func onDisk(files []simFile, crlf bool) []simFile {
	if !crlf {
		return files
	}
	out := make([]simFile, 0, len(files))
	for _, f := range files {
		if strings.HasSuffix(f.Path, ".yml") {
			f.Content = strings.ReplaceAll(f.Content, "\n", "\r\n")
		}
		out = append(out, f)
	}
	return out
}

func runC07(t *testing.T, sc C07Scenario, record bool) *detsim.Outcome {
	out := &detsim.Outcome{Probes: map[string]int{}, Faults: map[string]int{}}
	if sc.CRLF {
		out.Probes["crlf_files"]++
	}
	startAt := time.Duration(sc.StartAtS) * time.Second
	identity := func(_ string, l int) int { return l }

	// run A: no comment
	a := lintStructured(t, onDisk(sc.Files, sc.CRLF), sc.Servers, sc.Workers, detsim.SchedConfig{Order: detsim.OrderOldest}, startAt, true, nil, false)
	out.Sched.Decisions += a.Stats.Decisions
	out.SimNanos += a.SimNs
	if !a.Live || a.Err != "" {
		out.AddViolation("baseline-failed", fmt.Sprintf("run without the comment: live=%v err=%q", a.Live, a.Err))
		out.Poisoned = !a.Live
		return out
	}
	if len(a.Reports) == 0 {
		out.Probes["no_problems_to_target"]++
		return out
	}
	// sanity of the harness's own decomposition: the reports of every rule are exactly what its
	// check instances say when asked one by one (identical statements fold into one report)
	evByKey := map[string]*entryView{}
	for i := range a.Entries {
		ev := &a.Entries[i]
		evByKey[fmt.Sprintf("%s|%d", ev.Path, ev.First)] = ev
	}
	ruleOf := func(r reporter.Report) string { return fmt.Sprintf("%s|%d", r.Path.Name, r.Rule.Lines.First) }
	fold := func(ev *entryView, skip func(in instance) bool, lm lineMap) []normReport {
		seen := map[string]bool{}
		var outl []normReport
		for _, in := range ev.Instances {
			if skip != nil && skip(in) {
				continue
			}
			for _, p := range in.Problems {
				n := normalise(ev.Path, ev.Rule, ev.First, p, lm)
				if !seen[n.key()] {
					seen[n.key()] = true
					outl = append(outl, n)
				}
			}
		}
		return outl
	}
	var aNorm []normReport
	for _, r := range a.Reports {
		aNorm = append(aNorm, normalise(r.Path.Name, r.Rule.Name(), r.Rule.Lines.First, r.Problem, identity))
	}
	var aFromInstances []normReport
	for i := range a.Entries {
		aFromInstances = append(aFromInstances, fold(&a.Entries[i], nil, identity)...)
	}
	if d := diffMultiset(multiset(aFromInstances), multiset(aNorm)); d != "" {
		// not a property violation: the harness cannot attribute reports to check instances here
		out.Probes["decomposition_mismatch"]++
		out.Summary = "decomposition mismatch: " + clip(d, 600)
		return out
	}

	target := a.Reports[sc.Pick%len(a.Reports)]
	ev := evByKey[ruleOf(target)]
	if ev == nil {
		out.Probes["target_without_entry"]++
		return out
	}
	tn := normalise(target.Path.Name, target.Rule.Name(), target.Rule.Lines.First, target.Problem, identity)
	var inst *instance
	for i := range ev.Instances {
		for _, p := range ev.Instances[i].Problems {
			if normalise(ev.Path, ev.Rule, ev.First, p, identity).key() == tn.key() {
				inst = &ev.Instances[i]
			}
		}
	}
	if inst == nil {
		out.Probes["target_without_instance"]++
		return out
	}
	if inst.Always {
		// yaml/parse, ignore/file, pint/comment ...: not checks one can switch off
		out.Probes["target_always_enabled"]++
		return out
	}
	name := inst.Reporter
	spelling := name
	switch sc.Spelling {
	case 1:
		spelling = inst.String
	case 2:
		if len(inst.Tags) > 0 {
			spelling = fmt.Sprintf("%s(+%s)", name, inst.Tags[sc.PlaceK%len(inst.Tags)])
		}
	}
	targeted := func(in instance) bool {
		if in.Always {
			return false
		}
		switch {
		case spelling == name:
			return in.Reporter == name
		case strings.Contains(spelling, "(+"):
			tag := strings.TrimSuffix(spelling[strings.Index(spelling, "(+")+2:], ")")
			if in.Reporter != name {
				return false
			}
			for _, tg := range in.Tags {
				if tg == tag {
					return true
				}
			}
			return false
		default:
			return in.String == spelling
		}
	}
	locked := func(in instance) bool { return strings.Contains(in.String, "locked") }
	// lockedTwin: an identical check also comes from a locked block for this path (config variant 3)
	lockedTwin := func(in instance, path string) bool {
		return sc.ConfigVar >= 3 && in.String == "promql/aggregate(job:true)" && strings.HasPrefix(path, "rules/")
	}

	// build the comment
	ts := a.Now.Add(time.Duration(sc.TOffsetS) * time.Second).Truncate(time.Second)
	var when string
	if sc.TFormat == 3 {
		// date only = midnight UTC of that day: keep the sign of the offset
		day := ts.UTC().Truncate(24 * time.Hour)
		if sc.TOffsetS > 0 && !day.After(a.Now) {
			day = day.Add(24 * time.Hour)
		}
		ts = day
		when = day.Format("2006-01-02")
	} else {
		when = fmtSnoozeTime(ts, sc.TFormat)
	}
	if ts.Equal(a.Now) {
		out.Probes["exact_tie_skipped"]++
		return out
	}
	var comment string
	switch sc.Form {
	case formDisable:
		comment = "# pint disable " + spelling
	case formSnooze:
		comment = fmt.Sprintf("# pint snooze %s %s", when, spelling)
	case formFileDisable:
		comment = "# pint file/disable " + spelling
	case formFileSnooze:
		comment = fmt.Sprintf("# pint file/snooze %s %s", when, spelling)
	}
	fileLevel := sc.Form == formFileDisable || sc.Form == formFileSnooze
	timed := sc.Form == formSnooze || sc.Form == formFileSnooze
	inForce := !timed || ts.After(a.Now)

	// insert it
	var content string
	fidx := -1
	for i, f := range sc.Files {
		if f.Path == target.Path.Name {
			content = f.Content
			fidx = i
		}
	}
	if fidx < 0 {
		out.Probes["target_file_missing"]++
		return out
	}
	lines := strings.Split(strings.TrimSuffix(content, "\n"), "\n")
	insertedAt := 0 // 1-based line number of a NEW line (0: none, trailing comment)
	ruleLines := lines[ev.First-1 : ev.Last]
	indent := ruleLines[0][:len(ruleLines[0])-len(strings.TrimLeft(ruleLines[0], " "))]
	placement := sc.Placement
	if fileLevel && placement == 0 && sc.PlaceK%2 == 0 {
		// top of file
		lines = append([]string{comment}, lines...)
		insertedAt = 1
	} else {
		switch placement {
		case 0: // own line right above the rule
			lines = append(lines[:ev.First-1:ev.First-1], append([]string{indent + comment}, lines[ev.First-1:]...)...)
			insertedAt = ev.First
		case 1: // trailing comment on one of the rule's top-level key lines
			cands := []int{}
			for i, l := range ruleLines {
				tl := strings.TrimLeft(l, " ")
				if (i == 0 || len(l)-len(tl) == len(indent)+2) && !strings.HasSuffix(tl, "|") && !strings.Contains(tl, "#") {
					cands = append(cands, ev.First-1+i)
				}
			}
			k := cands[sc.PlaceK%len(cands)]
			lines[k] = lines[k] + " " + comment
		default: // own line between two top-level fields of the rule
			cands := []int{}
			for i, l := range ruleLines {
				tl := strings.TrimLeft(l, " ")
				if i > 0 && len(l)-len(tl) == len(indent)+2 {
					cands = append(cands, ev.First-1+i)
				}
			}
			if len(cands) == 0 {
				lines = append(lines[:ev.First-1:ev.First-1], append([]string{indent + comment}, lines[ev.First-1:]...)...)
				insertedAt = ev.First
			} else {
				k := cands[sc.PlaceK%len(cands)]
				lines = append(lines[:k:k], append([]string{indent + "  " + comment}, lines[k:]...)...)
				insertedAt = k + 1
			}
		}
	}
	filesB := append([]simFile{}, sc.Files...)
	filesB[fidx] = simFile{Path: target.Path.Name, Content: strings.Join(lines, "\n") + "\n"}
	shiftBack := func(path string, l int) int {
		if path == target.Path.Name && insertedAt > 0 && l >= insertedAt {
			return l - 1
		}
		return l
	}
	// a rule-level comment on its own line above the rule belongs to the rule: whole-rule problems
	// may start one line earlier; map that line onto the rule's first line
	lmB := func(path string, l int) int {
		if path == target.Path.Name && insertedAt > 0 && l == insertedAt && insertedAt == ev.First && sc.Placement != 1 {
			return ev.First
		}
		return shiftBack(path, l)
	}

	// expectation
	var want []normReport
	unspecified := false
	for i := range a.Entries {
		e := &a.Entries[i]
		affected := inForce && ((fileLevel && e.Path == ev.Path) || (!fileLevel && e == ev))
		if !affected {
			want = append(want, fold(e, nil, identity)...)
			continue
		}
		for _, in := range e.Instances {
			if targeted(in) && (locked(in) || lockedTwin(in, e.Path)) && fileLevel {
				unspecified = true // the property speaks about rule-level comments and locked blocks only
			}
			if targeted(in) && lockedTwin(in, e.Path) && !fileLevel {
				out.Probes["locked_twin_of_unlocked_check"]++
			}
		}
		path := e.Path
		want = append(want, fold(e, func(in instance) bool {
			if !targeted(in) {
				return false
			}
			if (locked(in) || lockedTwin(in, path)) && !fileLevel {
				return false // locked: the comment is ignored
			}
			return true
		}, identity)...)
	}
	if unspecified {
		out.Probes["file_level_vs_locked_unspecified"]++
		return out
	}

	// run B: with the comment, same instant, the schedule under test
	b := lintStructured(t, onDisk(filesB, sc.CRLF), sc.Servers, sc.Workers, sc.Sched, startAt, false, nil, record)
	out.Sched.Decisions += b.Stats.Decisions
	out.Sched.Trace = b.Stats.Trace
	out.Sched.Log = b.Stats.Log
	out.SimNanos += b.SimNs
	desc := fmt.Sprintf("`%s` (%s, placement %d) on rule `%s` %s:%d-%d at %s", comment, formNames[sc.Form], sc.Placement, ev.Rule, ev.Path, ev.First, ev.Last, a.Now.UTC().Format(time.RFC3339))
	if !b.Live || b.Err != "" {
		out.AddViolation("commented-run-failed", fmt.Sprintf("%s: live=%v err=%q", desc, b.Live, b.Err))
		out.Poisoned = !b.Live
		return out
	}
	var bNorm []normReport
	for _, r := range b.Reports {
		bNorm = append(bNorm, normalise(r.Path.Name, r.Rule.Name(), r.Rule.Lines.First, r.Problem, lmB))
	}
	digest := fnv.New64a()
	for _, n := range bNorm {
		fmt.Fprintf(digest, "%s\n", n.key())
	}
	out.Digest = digest.Sum64()
	removed := len(aNorm) - len(want)
	switch {
	case inForce && removed > 0:
		out.Probes["in_force_removes_"+formNames[sc.Form]]++
		out.Nontrivial = true
	case inForce:
		out.Probes["in_force_locked_or_nothing_to_remove"]++
	default:
		out.Probes["expired_"+formNames[sc.Form]]++
		out.Nontrivial = true
	}
	out.Probes[fmt.Sprintf("placement_%d", sc.Placement)]++
	out.Probes[fmt.Sprintf("spelling_%d", sc.Spelling)]++
	if d := diffMultiset(multiset(want), multiset(bNorm)); d != "" {
		class := "suppression-mismatch"
		if !inForce {
			class = "expired-snooze-changed-report"
		}
		out.AddViolation(class, fmt.Sprintf("%s (in force: %v): report differs from the run without the comment minus exactly the targeted slice:%s", desc, inForce, clip(d, 1500)))
	}

	// the watch loop crossing the deadline: iteration results must equal what a one-shot run
	// says at the same simulated instant
	if sc.Watch && timed && sc.TOffsetS > 0 && sc.TOffsetS <= 86400 && sc.Servers == 0 {
		interval := time.Duration(sc.IntervalS) * time.Second
		if min := time.Duration(sc.TOffsetS) * time.Second / 12; interval < min {
			interval = min // a few dozen iterations at most: every one is a full lint run
		}
		total := time.Duration(sc.TOffsetS)*time.Second + 2*interval + 5*time.Second
		w := lintStructured(t, onDisk(filesB, sc.CRLF), sc.Servers, sc.Workers, sc.Sched, startAt, false, &watchPlan{Interval: interval, Total: total, Poll: min(500*time.Millisecond, interval/4)}, false)
		out.SimNanos += w.SimNs
		out.Sched.Decisions += w.Stats.Decisions
		if !w.Live || w.Err != "" || len(w.Iterations) < 2 {
			out.AddViolation("watch-loop-failed", fmt.Sprintf("%s: live=%v err=%q iterations=%d", desc, w.Live, w.Err, len(w.Iterations)))
			out.Poisoned = !w.Live
			return out
		}
		wantAfter := multiset(func() []normReport {
			var l []normReport
			for i := range a.Entries {
				l = append(l, fold(&a.Entries[i], nil, identity)...)
			}
			return l
		}())
		before, after := 0, 0
		for _, it := range w.Iterations {
			var n []normReport
			for _, r := range it.Reports {
				n = append(n, normalise(r.Path.Name, r.Rule.Name(), r.Rule.Lines.First, r.Problem, lmB))
			}
			// the scan started up to one poll period before it was observed
			if it.At.Before(ts) {
				before++
				if d := diffMultiset(multiset(want), multiset(n)); d != "" {
					out.AddViolation("watch-before-deadline", fmt.Sprintf("%s: watch iteration at %s (before the snooze ends) differs from a one-shot run:%s", desc, it.At.UTC().Format(time.RFC3339), clip(d, 1200)))
				}
			} else if it.At.After(ts.Add(time.Second)) {
				after++
				if d := diffMultiset(wantAfter, multiset(n)); d != "" {
					out.AddViolation("watch-after-deadline", fmt.Sprintf("%s: watch iteration at %s (after the snooze ended) still differs from the report without the comment:%s", desc, it.At.UTC().Format(time.RFC3339), clip(d, 1200)))
				}
			}
		}
		if before > 0 && after > 0 {
			out.Probes["watch_crossed_deadline"]++
		}
	}
	out.Summary = map[string]any{"comment": comment, "placement": sc.Placement, "in_force": inForce, "problems_without": len(aNorm), "problems_expected": len(want), "at": a.Now.UTC().Format(time.RFC3339)}
	return out
}
