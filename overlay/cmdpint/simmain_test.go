//go:build verif

// Shared helpers of the in-process `pint` harnesses (C07, C11). This file is
// added to package main with `go test -overlay`; nothing in /repo is replaced.
package main

import (
	"context"
	"fmt"
	"io"
	"log/slog"
	"os"
	"path/filepath"
	"runtime"
	"runtime/debug"
	"sort"
	"strings"
	"sync"
	"testing"
	"time"

	"github.com/prometheus/prometheus/model/labels"

	"github.com/cloudflare/pint/internal/verifhook"
	"github.com/cloudflare/pint/verifsim/detsim"
	"github.com/cloudflare/pint/verifsim/simnet"
	"github.com/cloudflare/pint/verifsim/simprom"
)

func init() {
	simnet.InstallGlobalDialer()
}

type simFile struct {
	Path    string `json:"path"` // relative to the working directory
	Content string `json:"content"`
}

// pintRun is everything a user can observe of one `pint` invocation.
type pintRun struct {
	Stderr   string
	LogLines int
	JSON     string
	Err      string
	Stats    detsim.SchedStats
	SimNs    int64
	Leak     string
	Live     bool
	Reqs     int
	Applied  map[string]int // behaviours applied to connection attempts (simServer.Modes)
}

var faultMu sync.Mutex

type simServer struct {
	Host string
	DB   func(now time.Time) *simprom.MemDB
	// NoFlagsAPI: answers 404 on /api/v1/status/flags like Thanos or Mimir do - a static
	// property of the server, its answers stay a pure function of the request
	NoFlagsAPI bool
	// Modes: behaviours cycled over the connection attempts this host receives (empty = healthy)
	Modes []string
	// DelayMs: every answer takes this long (a slow but healthy server: what it answers is unchanged)
	DelayMs int
}

type connMode struct{ mode string }

type simEnv struct {
	Files   []simFile
	Args    []string // after "pint"
	Sched   detsim.SchedConfig
	StartAt time.Duration // simulated time to let pass before pint starts
	Servers []simServer
	JSONOut string // relative path of the --json file to read back
	// NoBubble: real clock, no scheduler (only with Sched.Free; race-detector auxiliary runs)
	NoBubble bool
}

func envInt(name string, def int) int {
	if v := os.Getenv(name); v != "" {
		var n int
		if _, err := fmt.Sscanf(v, "%d", &n); err == nil {
			return n
		}
	}
	return def
}

func writeTree(dir string, files []simFile) error {
	for _, f := range files {
		p := filepath.Join(dir, f.Path)
		if err := os.MkdirAll(filepath.Dir(p), 0o755); err != nil {
			return err
		}
		if err := os.WriteFile(p, []byte(f.Content), 0o644); err != nil {
			return err
		}
	}
	return nil
}

var runMu sync.Mutex

// runPint runs the whole command in process, inside a bubble, under the seeded scheduler.
func runPint(t *testing.T, env simEnv, record bool) pintRun {
	runMu.Lock()
	defer runMu.Unlock()
	var res pintRun
	res.Live = true
	res.Applied = map[string]int{}
	dir, err := os.MkdirTemp("", "verif-pint-")
	if err != nil {
		t.Fatal(err)
	}
	defer os.RemoveAll(dir)
	if err := writeTree(dir, env.Files); err != nil {
		t.Fatal(err)
	}
	oldwd, _ := os.Getwd()
	if err := os.Chdir(dir); err != nil {
		t.Fatal(err)
	}
	defer func() { _ = os.Chdir(oldwd) }()
	errFile, err := os.Create(filepath.Join(dir, ".stderr"))
	if err != nil {
		t.Fatal(err)
	}
	oldStderr := os.Stderr
	oldLogger := slog.Default()
	os.Stderr = errFile
	defer func() {
		os.Stderr = oldStderr
		slog.SetDefault(oldLogger)
	}()

	// Every run must start like a fresh process. The vendored PromQL parser keeps
	// parsers in a sync.Pool and a recycled parser leaks state into the position
	// of the next syntax error, so the console output of a run would depend on
	// what an EARLIER run in this test process parsed - an artefact of running
	// many pint invocations in one process, not something a schedule decides.
	// Two GC cycles empty every sync.Pool; GC stays off during the run so that
	// pool contents are a function of program order only.
	normalisePools()
	defer restoreGC()
	bubble := detsim.Bubble
	if env.NoBubble {
		bubble = func(_ *testing.T, body func()) string { body(); return "" }
	}
	res.Leak = bubble(t, func() {
		s := detsim.NewSched(env.Sched, record, detsim.States)
		verifhook.Yield = s.HookYield
		verifhook.LockerWrap = s.WrapLocker
		defer func() { verifhook.Yield = nil; verifhook.LockerWrap = nil }()
		nw := simnet.New()
		simnet.Use(nw)
		t0 := time.Now()
		if env.StartAt > 0 {
			time.Sleep(env.StartAt)
		}
		now := time.Now()
		servers := []*simprom.Server{}
		for i, sv := range env.Servers {
			be := simprom.NewEngineBackend(sv.DB(now))
			be.Metadata["http_requests_total"] = "counter"
			be.Metadata["errors_total"] = "counter"
			be.Metadata["up"] = "gauge"
			srv := simprom.NewServer(i, sv.Host, s, be)
			if sv.NoFlagsAPI || sv.DelayMs > 0 {
				noFlags, delay := sv.NoFlagsAPI, int64(sv.DelayMs)*int64(time.Millisecond)
				srv.FaultFn = func(req *simprom.Request) simprom.Fault {
					f := simprom.Fault{Mode: simprom.ModeOK}
					if delay > 0 {
						f.DelayNs = delay + int64(req.ID) // +id: no two timers tie
					}
					if noFlags && req.Endpoint == "/api/v1/status/flags" {
						f.Mode = simprom.ModeNotFound
					}
					return f
				}
			}
			if len(sv.Modes) > 0 {
				modes := sv.Modes
				srv.FaultFn = func(req *simprom.Request) simprom.Fault {
					if tag, ok := req.ConnTag.(connMode); ok {
						return simprom.Fault{Mode: tag.mode}
					}
					return simprom.Fault{Mode: simprom.ModeOK}
				}
				srv.StartCtx(nw, nil, func(k int, _ any) (simnet.DialAction, any) {
					mode := modes[k%len(modes)]
					faultMu.Lock()
					res.Applied[mode]++
					faultMu.Unlock()
					switch mode {
					case simprom.ModeRefused:
						return simnet.DialRefuse, nil
					case simprom.ModeDialBlackHole:
						return simnet.DialBlackHole, nil
					}
					return simnet.DialOK, connMode{mode: mode}
				})
			} else {
				srv.Start(nw, nil)
			}
			servers = append(servers, srv)
		}
		s.Start()
		done := make(chan struct{})
		go func() {
			defer close(done)
			s.Name("main")
			s.Yield("start", "main")
			if err := newApp().Run(context.Background(), append([]string{"pint"}, env.Args...)); err != nil {
				res.Err = err.Error()
			}
		}()
		select {
		case <-done:
		case <-time.After(map[bool]time.Duration{false: 240 * time.Hour, true: 2 * time.Minute}[env.NoBubble]):
			res.Live = false
		}
		res.SimNs = int64(time.Since(t0))
		s.Stop()
		res.Stats = s.Stats()
		for _, srv := range servers {
			res.Reqs += len(srv.Snapshot())
			srv.Close()
		}
		nw.Close()
	})
	_ = errFile.Close()
	b, _ := os.ReadFile(filepath.Join(dir, ".stderr"))
	// stderr carries two things: the console report (what the property is about) and slog
	// lines such as "Query returned an error", which are a log of events in the order they
	// happened and therefore legitimately follow the schedule. Keep them apart.
	var rep, logs, summaryLogs []string
	for _, l := range strings.Split(string(b), "\n") {
		if strings.HasPrefix(l, "level=") {
			logs = append(logs, l)
			if strings.Contains(l, "Some checks were disabled because") {
				// not an event but a summary printed once per server and API at the end of the
				// run (which checks were switched off): a function of the configuration
				summaryLogs = append(summaryLogs, l)
			}
		} else {
			rep = append(rep, l)
		}
	}
	sort.Strings(summaryLogs)
	res.Stderr = strings.Join(append(rep, summaryLogs...), "\n")
	res.LogLines = len(logs)
	if env.JSONOut != "" {
		j, _ := os.ReadFile(filepath.Join(dir, env.JSONOut))
		res.JSON = string(j)
	}
	return res
}

var savedGC = 100

// normalisePools: two GC cycles empty every sync.Pool; GC then stays off for the run.
func normalisePools() {
	runtime.GC()
	runtime.GC()
	savedGC = debug.SetGCPercent(-1)
}

func restoreGC() { debug.SetGCPercent(savedGC) }

// constDB builds a database whose answers do not depend on the exact instant
// of the query: every series has constant values and spans far beyond `now`
// on the side(s) where it exists at all.
func constDB(now time.Time, specs map[string][][2]int64, lbls map[string][]string) *simprom.MemDB {
	db := &simprom.MemDB{}
	names := make([]string, 0, len(specs))
	for n := range specs {
		names = append(names, n)
	}
	sort.Strings(names)
	const scrape = 120
	nowS := now.Unix()
	for _, n := range names {
		ls := append([]string{"__name__", n}, lbls[n]...)
		s := &simprom.MemSeries{Labels: labels.FromStrings(ls...)}
		for _, iv := range specs[n] {
			from := nowS + iv[0]
			from -= ((from % scrape) + scrape) % scrape
			for ts := from; ts <= nowS+iv[1]; ts += scrape {
				s.Samples = append(s.Samples, simprom.Sample{T: ts * 1000, V: 1})
			}
		}
		db.Series = append(db.Series, s)
	}
	return db
}

func standardDB(now time.Time) *simprom.MemDB {
	day := int64(86400)
	return constDB(now, map[string][][2]int64{
		"up":                  {{-9 * day, 2 * day}},
		"http_requests_total": {{-9 * day, 2 * day}},
		"errors_total":        {{-9 * day, -3 * day}},                       // disappeared three days ago
		"flaky_metric":        {{-9 * day, -6 * day}, {-4 * day, -2 * day}}, // comes and goes
		"node_load1":          {{-9 * day, 2 * day}},
	}, map[string][]string{
		"up":                  {"job", "prometheus", "instance", "sim:9090"},
		"http_requests_total": {"job", "api", "instance", "a:80", "code", "200"},
		"errors_total":        {"job", "api", "instance", "a:80"},
		"flaky_metric":        {"job", "batch", "instance", "b:80"},
		"node_load1":          {"job", "node", "instance", "n:9100"},
	})
}

func discardLogs() {
	slog.SetDefault(slog.New(slog.NewTextHandler(io.Discard, nil)))
}

func clip(s string, n int) string {
	if len(s) <= n {
		return s
	}
	return s[:n] + fmt.Sprintf("...(%d more bytes)", len(s)-n)
}

func firstDiff(a, b string) string {
	la, lb := strings.Split(a, "\n"), strings.Split(b, "\n")
	for i := 0; i < len(la) || i < len(lb); i++ {
		var x, y string
		if i < len(la) {
			x = la[i]
		}
		if i < len(lb) {
			y = lb[i]
		}
		if x != y {
			return fmt.Sprintf("line %d: %q vs %q", i+1, x, y)
		}
	}
	return "equal"
}
