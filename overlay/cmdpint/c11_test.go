//go:build verif

// C11: results do not depend on worker count or scheduling.
package main

import (
	"encoding/json"
	"fmt"
	"hash/fnv"
	"os"
	"strings"
	"testing"
	"time"

	"pgregory.net/rapid"

	"github.com/cloudflare/pint/verifsim/detsim"
	"github.com/cloudflare/pint/verifsim/simprom"
)

type C11Scenario struct {
	Sched     detsim.SchedConfig `json:"sched"`
	Workers   int                `json:"workers"`
	Files     []simFile          `json:"files"`
	Servers   int                `json:"servers"` // simulated Prometheus servers configured (0 = offline run)
	ShowDups  bool               `json:"show_dups"`
	MinSev    string             `json:"min_severity"`
	ConfigVar int                `json:"config_variant"`
	// DeadPrimary: the configured uri of every server refuses connections and the healthy
	// simulated server is its failover upstream - a static condition, answers stay a pure function of the query
	DeadPrimary bool `json:"dead_primary"`
	// NoFlagsAPI: the simulated servers do not implement /api/v1/status/flags
	NoFlagsAPI bool `json:"no_flags_api"`
	// SlowMs: every answer of the (single) server takes this long and the configured timeout is 2s: slow but
	// healthy, each request on its own is well inside the timeout however many of them are waiting for a slot
	SlowMs int `json:"slow_ms,omitempty"`
}

// rule palette: every entry is built to draw at least one problem from some check
var palette = []string{
	// always firing / comparison / template
	"- alert: %s\n  expr: up\n",
	"- alert: %s\n  expr: up == 0\n  for: 0m\n",
	"- alert: %s\n  expr: sum(up) by (job) == 0\n  annotations:\n    summary: 'instance {{ $labels.instance }} down'\n",
	"- alert: %s\n  expr: up{job=~\"prometheus\"} == 0\n  labels:\n    severity: page\n",
	"- alert: %s\n  expr: errors_total > 10\n  for: 5m\n  labels:\n    severity: ticket\n  annotations:\n    summary: errors\n",
	"- alert: %s\n  expr: rate(http_requests_total[1m]) > 0\n  annotations:\n    dashboard: https://example.com/d\n",
	"- alert: %s\n  expr: flaky_metric{job=\"batch\"} > 0 and on(instance) up == 1\n",
	"- alert: %s\n  expr: absent(missing_metric)\n",
	"- alert: %s\n  expr: sum(\n",
	"- alert: %s\n  expr: node_load1 > 1 and node_load1 > 2\n  keep_firing_for: 1m\n",
	"- record: %s\n  expr: sum(rate(http_requests_total[5m])) without(instance)\n",
	"- record: %s\n  expr: sum(http_requests_total) by (code)\n",
	"- record: %s\n  expr: rate(node_load1[2m])\n",
	"- record: %s\n  expr: missing_metric{job=\"x\"} / up\n",
	"- record: %s\n  expr: topk(5, http_requests_total)\n  labels:\n    team: a\n",
	"- record: %s\n  expr: errors_total{instance=~\".+\"} * on(instance) group_left(job) up\n",
	"- alert: %s\n  expr: http_requests_total offset 5m > 100 and on(instance) up offset 5m == 1\n",
	"- record: %s\n  expr: rate(http_requests_total[5m] offset 1h) / on(instance) node_load1 offset 10m\n",
	"- alert: %s\n  expr: http_requests_total > 100\n  labels:\n    severity: page\n  annotations:\n    summary: direct counter read\n",
}

var alertNames = []string{"Down", "HighErrors", "Flaky", "Load"}
var recordNames = []string{"job:http:rate5m", "code:http:sum", "node:load:rate", "colon:less"}

var preexisting = []string{
	"# pint snooze 1999-01-01 %s",                // expired long before any simulated instant
	"# pint snooze 1999-06-01T00:00:00+02:00 %s", // expired
	"# pint snooze 2099-01-01 %s",                // in force
	"# pint disable %s",
}

var commentTargets = []string{"promql/regexp", "alerts/comparison", "promql/fragile", "alerts/template", "promql/rate", "promql/series", "alerts/for", "promql/aggregate", "rule/label", "alerts/annotation", "promql/impossible"}

func drawRuleFile(rt *rapid.T, strict bool) string { return drawRuleFileC(rt, strict, false) }

func drawRuleFileC(rt *rapid.T, strict, withComments bool) string {
	var sb strings.Builder
	if strict {
		sb.WriteString("groups:\n- name: g\n  rules:\n")
	}
	n := rapid.IntRange(1, 5).Draw(rt, "nrules")
	for i := 0; i < n; i++ {
		tpl := palette[rapid.IntRange(0, len(palette)-1).Draw(rt, "tpl")]
		var name string
		if strings.HasPrefix(tpl, "- alert") {
			name = alertNames[rapid.IntRange(0, len(alertNames)-1).Draw(rt, "aname")]
		} else {
			name = recordNames[rapid.IntRange(0, len(recordNames)-1).Draw(rt, "rname")]
		}
		rule := fmt.Sprintf(tpl, name)
		if withComments && rapid.IntRange(0, 2).Draw(rt, "precomment") == 0 {
			// control comments that are already there: expired snoozes must stay without any effect,
			// active ones must keep theirs, whatever else is added to the rule
			k := rapid.IntRange(1, 2).Draw(rt, "nprecomments")
			for j := 0; j < k; j++ {
				c := fmt.Sprintf(preexisting[rapid.IntRange(0, len(preexisting)-1).Draw(rt, "pre")], commentTargets[rapid.IntRange(0, len(commentTargets)-1).Draw(rt, "pretarget")])
				rule = c + "\n" + rule
			}
		}
		if strict {
			rule = "  " + strings.ReplaceAll(strings.TrimSuffix(rule, "\n"), "\n", "\n  ") + "\n"
		}
		sb.WriteString(rule)
	}
	return sb.String()
}

func c11Config(variant, servers int, deadPrimary bool) string {
	return c11ConfigT(variant, servers, deadPrimary, "30s")
}

func c11ConfigT(variant, servers int, deadPrimary bool, timeout string) string {
	var sb strings.Builder
	sb.WriteString("parser {\n  relaxed = [\"relaxed/.*\"]\n}\n")
	for i := 0; i < servers; i++ {
		if deadPrimary {
			fmt.Fprintf(&sb, "prometheus \"prom%c\" {\n  uri = \"http://dead%d:9090\"\n  failover = [\"http://prom%d:9090\"]\n  timeout = \"%s\"\n  rateLimit = 2000000000\n  concurrency = %d\n}\n", 'a'+i, i, i, timeout, 2+i*6)
			continue
		}
		fmt.Fprintf(&sb, "prometheus \"prom%c\" {\n  uri = \"http://prom%d:9090\"\n  timeout = \"%s\"\n  rateLimit = 2000000000\n  concurrency = %d\n}\n", 'a'+i, i, timeout, 2+i*6)
	}
	if variant >= 1 {
		sb.WriteString("rule {\n  match { kind = \"alerting\" }\n  label \"severity\" {\n    required = true\n    severity = \"bug\"\n  }\n  annotation \"summary\" {\n    required = true\n    severity = \"warning\"\n  }\n}\n")
		sb.WriteString("rule {\n  match { kind = \"recording\" }\n  aggregate \".+\" {\n    keep = [\"job\"]\n    severity = \"warning\"\n  }\n}\n")
	}
	if variant >= 2 {
		// the same check kinds instantiated a second time with other settings
		sb.WriteString("rule {\n  label \"team\" {\n    required = true\n    severity = \"warning\"\n  }\n  aggregate \".+\" {\n    strip = [\"instance\"]\n    severity = \"bug\"\n  }\n  for {\n    severity = \"bug\"\n    min = \"1m\"\n  }\n}\n")
		if servers > 0 {
			sb.WriteString("rule {\n  match { kind = \"alerting\" }\n  alerts {\n    range = \"1d\"\n    step = \"5m\"\n    resolve = \"5m\"\n  }\n  cost {}\n}\n")
		}
	}
	return sb.String()
}

func drawC11(rt *rapid.T) C11Scenario {
	var sc C11Scenario
	sc.Sched = detsim.DrawSched(rt, detsim.Scale(600, 2000))
	sc.Workers = []int{2, 2, 3, 4, 4, 8, 16, 64}[rapid.IntRange(0, 7).Draw(rt, "workers")]
	sc.Servers = []int{0, 0, 1, 1, 2}[rapid.IntRange(0, 4).Draw(rt, "servers")]
	sc.ConfigVar = rapid.IntRange(0, 2).Draw(rt, "cfg")
	sc.ShowDups = rapid.Bool().Draw(rt, "showdups")
	sc.MinSev = []string{"info", "warning", "warning", "bug"}[rapid.IntRange(0, 3).Draw(rt, "minsev")]
	nf := rapid.IntRange(1, detsim.Scale(4, 7)).Draw(rt, "nfiles")
	for i := 0; i < nf; i++ {
		strict := rapid.IntRange(0, 2).Draw(rt, "strict") > 0
		dir := "rules"
		if !strict {
			dir = "relaxed"
		}
		content := drawRuleFile(rt, strict)
		sc.Files = append(sc.Files, simFile{Path: fmt.Sprintf("%s/f%d.yml", dir, i), Content: content})
		if rapid.IntRange(0, 3).Draw(rt, "copy") == 0 {
			// the same content under a second name: identical problems in two files feed duplicate folding
			sc.Files = append(sc.Files, simFile{Path: fmt.Sprintf("%s/copy%d.yml", dir, i), Content: content})
		}
	}
	sc.DeadPrimary = sc.Servers > 0 && rapid.IntRange(0, 2).Draw(rt, "deadprimary") == 0
	sc.NoFlagsAPI = sc.Servers > 0 && rapid.IntRange(0, 2).Draw(rt, "noflags") == 0
	timeout := "30s"
	if sc.Servers == 1 && rapid.IntRange(0, 3).Draw(rt, "slow") == 0 {
		sc.SlowMs = []int{150, 300, 450}[rapid.IntRange(0, 2).Draw(rt, "slowms")]
		timeout = "2s"
	}
	sc.Files = append(sc.Files, simFile{Path: ".pint.hcl", Content: c11ConfigT(sc.ConfigVar, sc.Servers, sc.DeadPrimary, timeout)})
	return sc
}

func c11Env(sc *C11Scenario, workers int, sched detsim.SchedConfig) simEnv {
	args := []string{"--workers", fmt.Sprint(workers), "--no-color", "--log-level", "warn"}
	if sc.Servers == 0 {
		args = append(args, "--offline")
	}
	if sc.ShowDups {
		args = append(args, "--show-duplicates")
	}
	args = append(args, "lint", "--min-severity", sc.MinSev, "--json", "report.json", "rules", "relaxed")
	env := simEnv{Files: sc.Files, Args: args, Sched: sched, StartAt: 90 * time.Second, JSONOut: "report.json"}
	hasRelaxed, hasRules := false, false
	for _, f := range sc.Files {
		hasRelaxed = hasRelaxed || strings.HasPrefix(f.Path, "relaxed/")
		hasRules = hasRules || strings.HasPrefix(f.Path, "rules/")
	}
	if !hasRelaxed {
		env.Files = append(env.Files, simFile{Path: "relaxed/.keep", Content: ""})
	}
	if !hasRules {
		env.Files = append(env.Files, simFile{Path: "rules/.keep", Content: ""})
	}
	for i := 0; i < sc.Servers; i++ {
		env.Servers = append(env.Servers, simServer{Host: fmt.Sprintf("prom%d:9090", i), DB: standardDB, NoFlagsAPI: sc.NoFlagsAPI, DelayMs: sc.SlowMs})
	}
	return env
}

func TestC11(t *testing.T) {
	discardLogs()
	detsim.Main(t, detsim.Prop[C11Scenario]{ID: "C11", Draw: drawC11, Run: runC11})
}

func runC11(t *testing.T, sc C11Scenario, record bool) *detsim.Outcome {
	out := &detsim.Outcome{Probes: map[string]int{}, Faults: map[string]int{}}
	// baseline: one worker, first-come-first-served
	base := runPint(t, c11Env(&sc, 1, detsim.SchedConfig{Order: detsim.OrderOldest}), false)
	if !base.Live {
		out.AddViolation("liveness", "baseline run (--workers 1) did not finish")
		out.Poisoned = true
		return out
	}
	if os.Getenv("VERIF_DEBUG") != "" {
		fmt.Printf("=== --workers 1 console ===\n%s\n", base.Stderr)
	}
	digest := fnv.New64a()
	fmt.Fprintf(digest, "%s|%s|%s", base.Stderr, base.JSON, base.Err)
	out.Digest = digest.Sum64()
	problems := strings.Count(base.JSON, "\"reporter\"")
	if problems > 0 {
		out.Probes["runs_with_problems"]++
	}
	if strings.Contains(base.Stderr, "duplicate") || strings.Contains(base.Stderr, "Duplicate") {
		out.Probes["runs_with_folded_duplicates"]++
	}
	if base.Reqs > 0 {
		out.Probes["runs_with_online_checks"]++
	}
	if sc.DeadPrimary {
		out.Probes["runs_with_failover"]++
	}
	if sc.SlowMs > 0 {
		out.Probes["runs_with_slow_server"]++
	}
	// the schedule under test, three times with the same tape: map iteration order is the one
	// source of nondeterminism no seam can pin, a disagreement among same-tape runs is a violation too
	var first *pintRun
	for rep := 0; rep < 3; rep++ {
		r := runPint(t, c11Env(&sc, sc.Workers, sc.Sched), record && rep == 0)
		out.Sched.Decisions += r.Stats.Decisions
		out.SimNanos += r.SimNs
		if rep == 0 {
			out.Sched.Trace = r.Stats.Trace
			out.Sched.Log = r.Stats.Log
			out.Sched.Preempts = r.Stats.Preempts
			out.Sched.MaxParked = r.Stats.MaxParked
		}
		if !r.Live {
			out.AddViolation("liveness", fmt.Sprintf("--workers %d: pint did not finish (leak: %s)", sc.Workers, r.Leak))
			out.Poisoned = true
			return out
		}
		if r.Leak != "" {
			out.AddViolation("goroutine-leak", r.Leak)
		}
		who := fmt.Sprintf("--workers %d (schedule order=%d, %d pre-emptions, repetition %d)", sc.Workers, sc.Sched.Order, r.Stats.Preempts, rep)
		if r.Err != base.Err {
			out.AddViolation("exit-status-differs", fmt.Sprintf("%s: error %q, --workers 1: %q", who, r.Err, base.Err))
		}
		if r.JSON != base.JSON {
			out.AddViolation("json-differs", fmt.Sprintf("%s: JSON report differs from --workers 1: %s", who, firstDiff(base.JSON, r.JSON)))
		}
		if record && rep == 0 && (r.Stderr != base.Stderr || r.JSON != base.JSON) {
			fmt.Printf("=== --workers 1 console ===\n%s\n=== --workers %d console ===\n%s\n=== --workers 1 JSON ===\n%s\n=== --workers %d JSON ===\n%s\n", base.Stderr, sc.Workers, r.Stderr, base.JSON, sc.Workers, r.JSON)
		}
		if r.Stderr != base.Stderr {
			out.AddViolation("console-differs", fmt.Sprintf("%s: console output differs from --workers 1: %s", who, firstDiff(base.Stderr, r.Stderr)))
		}
		if first == nil {
			cp := r
			first = &cp
		} else if r.Stderr != first.Stderr || r.JSON != first.JSON || r.Err != first.Err {
			out.AddViolation("nondeterministic-beyond-schedule", fmt.Sprintf("%s: same files, same tape, different output: %s", who, firstDiff(first.Stderr, r.Stderr)))
		}
		if r.Stats.MaxParked > 2 {
			out.Nontrivial = problems > 1
		}
	}
	out.Summary = map[string]any{"workers": sc.Workers, "files": len(sc.Files) - 1, "problems": problems, "servers": sc.Servers, "requests": base.Reqs}
	return out
}

var _ = simprom.ModeOK

// TestC11Race is the auxiliary, UNCONTROLLED part of C11 ("the concurrent run
// has no data race"): the serialising scheduler creates happens-before edges
// between everything, so the race detector is blind under it. Here the same
// generated workloads run with the scheduler switched off (free-running
// goroutines, real clock, no bubble) in a binary built with -race. This is
// observation, not simulation: a report is sound but not replayable from a seed.
func TestC11Race(t *testing.T) {
	discardLogs()
	start := time.Now()
	budget := time.Duration(envInt("VERIF_BUDGET_S", 15)) * time.Second
	rep := &detsim.WorkerReport{Property: "C11", Probes: map[string]int{}, Faults: map[string]int{}, Extra: map[string]int64{}}
	defer func() {
		rep.WallS = time.Since(start).Seconds()
		if o := os.Getenv("VERIF_OUT"); o != "" {
			b, _ := json.Marshal(rep)
			_ = os.WriteFile(o, b, 0o644)
		}
	}()
	runFree := func(sc *C11Scenario, workers int) pintRun {
		env := c11Env(sc, workers, detsim.SchedConfig{Free: true})
		env.StartAt = 0
		env.NoBubble = true
		for i := range env.Servers {
			if env.Servers[i].DelayMs > 3 {
				env.Servers[i].DelayMs = 3 // real time here: keep "slow" short enough for hundreds of requests
			}
		}
		r := runPint(t, env, false)
		if !r.Live {
			// nothing after this is meaningful in this process (registries, leaked goroutines)
			fmt.Printf("uncontrolled run with --workers %d did not finish within 2 minutes of real time\n", workers)
			os.Exit(3)
		}
		return r
	}
	if f := os.Getenv("VERIF_REPLAY"); f != "" {
		b, err := os.ReadFile(f)
		if err != nil {
			t.Fatal(err)
		}
		var rf struct {
			Scenario C11Scenario `json:"scenario"`
		}
		if err := json.Unmarshal(b, &rf); err != nil {
			t.Fatal(err)
		}
		for i := 0; i < 64; i++ {
			runFree(&rf.Scenario, rf.Scenario.Workers)
		}
		return
	}
	rapid.Check(t, func(rt *rapid.T) {
		if time.Since(start) > budget {
			return
		}
		sc := drawC11(rt)
		if cf := os.Getenv("VERIF_CURFILE"); cf != "" {
			b, _ := json.Marshal(map[string]any{"property": "C11", "class": "data-race", "detail": "free-running -race execution of this workload", "scenario": sc})
			_ = os.WriteFile(cf, b, 0o644)
		}
		base := runFree(&sc, 1)
		r := runFree(&sc, sc.Workers)
		rep.Runs++
		rep.Probes["free_runs"] += 2
		if r.Stderr != base.Stderr || r.JSON != base.JSON || r.Err != base.Err {
			// Counted, not judged: these executions are uncontrolled (many Ps, real GC), and the
			// one source of run-to-run differences seen here - the vendored PromQL parser recycles
			// parsers through a per-P sync.Pool without resetting the position it reports for some
			// syntax errors - is not decided by worker count or check interleaving (DESIGN "Observations").
			rep.Probes["free_run_output_differs"]++
		}
	})
}
