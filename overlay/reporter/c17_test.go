//go:build verif

// C17: pull-request commenting converges and is idempotent.
// Added to package reporter with `go test -overlay`; nothing in /repo is replaced.
package reporter

import (
	"context"
	"fmt"
	"hash/fnv"
	"io"
	"log/slog"
	"os"
	"os/exec"
	"path/filepath"
	"strings"
	"testing"
	"time"

	"github.com/prometheus/client_golang/prometheus"
	gitlab "gitlab.com/gitlab-org/api/client-go"
	"pgregory.net/rapid"

	"github.com/cloudflare/pint/internal/config"
	"github.com/cloudflare/pint/internal/discovery"
	"github.com/cloudflare/pint/internal/git"
	"github.com/cloudflare/pint/internal/parser"
	"github.com/cloudflare/pint/verifsim/detsim"
	"github.com/cloudflare/pint/verifsim/simforge"
	"github.com/cloudflare/pint/verifsim/simnet"

	"github.com/prometheus/common/model"
)

func init() {
	simnet.InstallGlobalDialer()
}

// rule palette: every entry draws at least one offline problem
var c17Palette = []string{
	"- alert: %s\n  expr: up\n",
	"- alert: %s\n  expr: up == 0\n  for: 0m\n",
	"- alert: %s\n  expr: sum(up) by (job) == 0\n  annotations:\n    summary: 'instance {{ $labels.instance }} down'\n",
	"- alert: %s\n  expr: up{job=~\"prometheus\"} == 0\n  labels:\n    severity: page\n",
	"- alert: %s\n  expr: errors_total > 10\n  for: 5m\n  labels:\n    severity: ticket\n  annotations:\n    summary: errors\n",
	"- alert: %s\n  expr: absent(missing_metric)\n  annotations:\n    summary: gone\n",
	"- record: %s\n  expr: sum(rate(http_requests_total[5m])) without(instance)\n",
	"- record: %s\n  expr: sum(http_requests_total) by (code)\n",
	"- record: %s\n  expr: topk(5, http_requests_total)\n  labels:\n    team: a\n",
	"- alert: %s\n  expr: node_load1 > 1\n  labels:\n    severity: page\n  annotations:\n    summary: fine\n", // clean under the config below except for labels
}

var c17Alerts = []string{"Down", "HighErrors", "Flaky", "Load", "Gone"}
var c17Records = []string{"job:http:rate5m", "code:http:sum", "top:http", "colon:less"}

const c17Config = `ci {
  baseBranch = "main"
}
parser {
  relaxed = [".*"]
}
rule {
  match { kind = "alerting" }
  label "severity" {
    required = true
    severity = "bug"
  }
  annotation "summary" {
    required = true
    severity = "warning"
  }
}
rule {
  match { kind = "recording" }
  aggregate ".+" {
    keep = ["job"]
    severity = "warning"
  }
}
`

type c17Rule struct {
	Tpl  int    `json:"tpl"`
	Name string `json:"name"`
	Pad  int    `json:"pad"` // comment lines in front of the rule: moves it without changing it
}

type c17File struct {
	Path  string    `json:"path"`
	Rules []c17Rule `json:"rules"`
}

func (f c17File) render() string {
	var sb strings.Builder
	for _, r := range f.Rules {
		for i := 0; i < r.Pad; i++ {
			sb.WriteString("# note\n")
		}
		sb.WriteString(fmt.Sprintf(c17Palette[r.Tpl], r.Name))
	}
	return sb.String()
}

type c17Fault struct {
	N    int    `json:"n"` // request ordinal within the run
	Mode string `json:"mode"`
}

type c17Round struct {
	Files   []c17File  `json:"files,omitempty"`   // the developer pushes: new content of these files (nil: no push)
	Foreign [][2]int   `json:"foreign,omitempty"` // (file index, line) comments by somebody else before the run
	Replies int        `json:"replies,omitempty"` // replies by others appended to that many of pint's threads (GitLab)
	Faults  []c17Fault `json:"faults,omitempty"`
}

type C17Scenario struct {
	// Sched orders requests that are in flight at the same time (the reporters ask one thing at a
	// time today, so the tape only matters for code that starts to overlap its requests)
	Sched       detsim.SchedConfig `json:"sched"`
	Platform    string             `json:"platform"`
	MaxComments int                `json:"max_comments"`
	ShowDups    bool               `json:"show_dups"`
	PerPage     int                `json:"per_page"` // page size of the platform's listings (GitLab paginates discussions)
	MRs         int                `json:"mrs"`      // GitLab: open merge requests of the branch (each one is a destination)
	// OtherFiles: the pull request also changes that many files pint has nothing to say about (docs, code);
	// they come first in the platform's file listing
	OtherFiles int        `json:"other_files,omitempty"`
	Base       []c17File  `json:"base"` // content of main
	Rounds     []c17Round `json:"rounds"`
}

func drawC17File(rt *rapid.T, path string, minRules int) c17File {
	f := c17File{Path: path}
	n := rapid.IntRange(minRules, 4).Draw(rt, "nrules")
	for i := 0; i < n; i++ {
		tpl := rapid.IntRange(0, len(c17Palette)-1).Draw(rt, "tpl")
		var name string
		if strings.HasPrefix(c17Palette[tpl], "- alert") {
			name = c17Alerts[rapid.IntRange(0, len(c17Alerts)-1).Draw(rt, "aname")]
		} else {
			name = c17Records[rapid.IntRange(0, len(c17Records)-1).Draw(rt, "rname")]
		}
		f.Rules = append(f.Rules, c17Rule{Tpl: tpl, Name: name, Pad: rapid.IntRange(0, 2).Draw(rt, "pad")})
	}
	return f
}

func drawC17(rt *rapid.T) C17Scenario {
	var sc C17Scenario
	sc.Platform = []string{"github", "gitlab"}[rapid.IntRange(0, 1).Draw(rt, "platform")]
	sc.MaxComments = []int{1, 2, 3, 5, 50}[rapid.IntRange(0, 4).Draw(rt, "max")]
	sc.ShowDups = rapid.Bool().Draw(rt, "showdups")
	sc.PerPage = []int{2, 3, 5, 100}[rapid.IntRange(0, 3).Draw(rt, "perpage")]
	sc.MRs = []int{1, 1, 1, 2}[rapid.IntRange(0, 3).Draw(rt, "mrs")]
	paths := []string{"rules/a.yml", "rules/b.yml", "rules/c.yml"}
	nf := rapid.IntRange(1, 3).Draw(rt, "nfiles")
	for i := 0; i < nf; i++ {
		sc.Base = append(sc.Base, drawC17File(rt, paths[i], 0))
	}
	sc.Sched = detsim.DrawSched(rt, 40)
	if rapid.IntRange(0, 5).Draw(rt, "bigpr") == 0 {
		sc.OtherFiles = rapid.IntRange(25, 45).Draw(rt, "otherfiles")
	}
	nr := rapid.IntRange(1, detsim.Scale(5, 8)).Draw(rt, "rounds")
	faulty := rapid.IntRange(0, 9).Draw(rt, "faulty") >= 4
	for r := 0; r < nr; r++ {
		var rd c17Round
		if r == 0 || rapid.IntRange(0, 2).Draw(rt, "push") > 0 {
			k := rapid.IntRange(1, nf).Draw(rt, "nchanged")
			for i := 0; i < k; i++ {
				rd.Files = append(rd.Files, drawC17File(rt, paths[(r+i)%nf], 1))
			}
		}
		if rapid.IntRange(0, 2).Draw(rt, "foreign") == 0 {
			rd.Foreign = append(rd.Foreign, [2]int{rapid.IntRange(0, nf-1).Draw(rt, "ff"), rapid.IntRange(1, 6).Draw(rt, "fl")})
		}
		if sc.Platform == "gitlab" && rapid.IntRange(0, 3).Draw(rt, "reply") == 0 {
			rd.Replies = rapid.IntRange(1, 2).Draw(rt, "nreplies")
		}
		if faulty && rapid.IntRange(0, 1).Draw(rt, "roundfault") == 0 {
			nfault := rapid.IntRange(1, 2).Draw(rt, "nfaults")
			for i := 0; i < nfault; i++ {
				modes := []string{"500", "502", "stall", "refuse-after", "refuse-after", "lost-ack", "late-ack", "garbage"}
				if sc.Platform == "github" {
					modes = append(modes, "403-rate", "403-rate")
				} else {
					modes = append(modes, "429", "429")
				}
				rd.Faults = append(rd.Faults, c17Fault{N: rapid.IntRange(0, 18).Draw(rt, "fn"), Mode: modes[rapid.IntRange(0, len(modes)-1).Draw(rt, "fmode")]})
			}
		}
		sc.Rounds = append(sc.Rounds, rd)
	}
	return sc
}

func TestC17(t *testing.T) {
	slog.SetDefault(slog.New(slog.NewTextHandler(io.Discard, nil)))
	detsim.Main(t, detsim.Prop[C17Scenario]{ID: "C17", Draw: drawC17, Run: runC17})
}

type c17Repo struct {
	dir   string
	clock time.Time
}

func (r *c17Repo) git(args ...string) (string, error) {
	cmd := exec.Command("git", args...)
	cmd.Dir = r.dir
	date := r.clock.Format(time.RFC3339)
	cmd.Env = append(os.Environ(), "GIT_AUTHOR_NAME=sim", "GIT_AUTHOR_EMAIL=sim@example.com", "GIT_COMMITTER_NAME=sim", "GIT_COMMITTER_EMAIL=sim@example.com",
		"GIT_AUTHOR_DATE="+date, "GIT_COMMITTER_DATE="+date, "GIT_CONFIG_NOSYSTEM=1", "HOME="+r.dir, "LC_ALL=C")
	out, err := cmd.CombinedOutput()
	if err != nil {
		return string(out), fmt.Errorf("git %s: %v: %s", strings.Join(args, " "), err, out)
	}
	return string(out), nil
}

func (r *c17Repo) write(files []c17File) error {
	for _, f := range files {
		p := filepath.Join(r.dir, f.Path)
		if err := os.MkdirAll(filepath.Dir(p), 0o755); err != nil {
			return err
		}
		if err := os.WriteFile(p, []byte(f.render()), 0o644); err != nil {
			return err
		}
	}
	return nil
}

func (r *c17Repo) commit(msg string) error {
	r.clock = r.clock.Add(time.Minute)
	if _, err := r.git("add", "-A"); err != nil {
		return err
	}
	_, err := r.git("commit", "-q", "--allow-empty", "-m", msg)
	return err
}

// prFiles asks git what the platform would show for this pull request.
func (r *c17Repo) prFiles() ([]simforge.File, string, string, error) {
	head, err := r.git("rev-parse", "HEAD")
	if err != nil {
		return nil, "", "", err
	}
	base, err := r.git("merge-base", "main", "HEAD")
	if err != nil {
		return nil, "", "", err
	}
	names, err := r.git("diff", "--name-only", "main...HEAD")
	if err != nil {
		return nil, "", "", err
	}
	var files []simforge.File
	for _, n := range strings.Fields(names) {
		d, err := r.git("diff", "--unified=3", "main...HEAD", "--", n)
		if err != nil {
			return nil, "", "", err
		}
		if i := strings.Index(d, "@@"); i >= 0 {
			d = d[i:]
		} else {
			d = ""
		}
		files = append(files, simforge.File{Path: n, OldPath: n, Patch: strings.TrimSuffix(d, "\n")})
	}
	return files, strings.TrimSpace(head), strings.TrimSpace(base), nil
}

// lintCI is the part of `pint ci` in front of the reporters: real git discovery, real checks, real summary.
func lintCI(cfg config.Config) (Summary, error) {
	filter := git.NewPathFilter(
		config.MustCompileRegexes(cfg.Parser.Include...),
		config.MustCompileRegexes(cfg.Parser.Exclude...),
		config.MustCompileRegexes(cfg.Parser.Relaxed...),
	)
	entries, err := discovery.NewGlobFinder([]string{"*"}, filter, parser.PrometheusSchema, model.UTF8Validation, nil).Find()
	if err != nil {
		return Summary{}, err
	}
	entries, err = discovery.NewGitBranchFinder(git.RunGit, filter, "main", 50, parser.PrometheusSchema, model.UTF8Validation, nil).Find(entries)
	if err != nil {
		return Summary{}, err
	}
	ctx := context.WithValue(context.Background(), config.CommandKey, config.CICommand)
	gen := config.NewPrometheusGenerator(cfg, prometheus.NewRegistry())
	var s Summary
	for _, e := range entries {
		if e.State == discovery.Removed && (e.PathError != nil || e.Rule.Error.Err != nil) {
			continue
		}
		for _, c := range cfg.GetChecksForEntry(ctx, gen, e) {
			for _, p := range c.Check(ctx, e, entries) {
				s.Report(Report{Path: e.Path, ModifiedLines: e.ModifiedLines, Rule: e.Rule, Problem: p, Owner: e.Owner})
			}
		}
	}
	s.TotalEntries = len(entries)
	s.SortReports()
	s.Dedup()
	return s, nil
}

func trimBody(s string) string { return strings.TrimSpace(s) }

// matchesReport: does this stored comment carry this problem's text at its file (and, where the platform can, line)?
func matchesReport(c simforge.Comment, rep Report, modified map[string]map[int]bool) bool {
	if c.General || c.Path != rep.Path.SymlinkTarget {
		return false
	}
	if !strings.Contains(c.Body, "**"+rep.Problem.Reporter+"**") || !strings.Contains(c.Body, rep.Problem.Summary) {
		return false
	}
	for _, d := range rep.Problem.Diagnostics {
		if !strings.Contains(c.Body, d.Message) {
			return false
		}
	}
	// Where the comment may sit is the platform's business as long as it is on the problem's
	// file: GitHub only accepts lines of the diff and pint's idea of a modified line (git blame,
	// which counts shifted lines) differs from the diff's (which shows them as context). The line
	// is therefore demanded only where there is no excuse: every line of the problem was added by the diff.
	allAdded := true
	for l := rep.Problem.Lines.First; l <= rep.Problem.Lines.Last; l++ {
		if !modified[c.Path][l] {
			allAdded = false
		}
	}
	if allAdded {
		line := c.Line
		if line == 0 {
			line = c.OldLine
		}
		return line >= rep.Problem.Lines.First && line <= rep.Problem.Lines.Last
	}
	return true // the problem sits on lines the diff does not show: the platform decides where the comment may go
}

func runC17(t *testing.T, sc C17Scenario, record bool) *detsim.Outcome {
	out := &detsim.Outcome{Probes: map[string]int{}, Faults: map[string]int{}}
	dir, err := os.MkdirTemp("", "verif-c17-")
	if err != nil {
		t.Fatal(err)
	}
	defer os.RemoveAll(dir)
	cfgDir, err := os.MkdirTemp("", "verif-c17-cfg-")
	if err != nil {
		t.Fatal(err)
	}
	defer os.RemoveAll(cfgDir)
	cfgPath := filepath.Join(cfgDir, "pint.hcl")
	if err := os.WriteFile(cfgPath, []byte(c17Config), 0o644); err != nil {
		t.Fatal(err)
	}
	repo := &c17Repo{dir: dir, clock: time.Date(2024, 1, 1, 0, 0, 0, 0, time.UTC)}
	must := func(err error) {
		if err != nil {
			t.Fatalf("simulated repository: %v", err)
		}
	}
	_, err = repo.git("init", "-q", "-b", "main")
	must(err)
	must(repo.write(sc.Base))
	must(repo.commit("base"))
	_, err = repo.git("checkout", "-q", "-b", "pr")
	must(err)
	oldwd, _ := os.Getwd()
	must(os.Chdir(dir))
	defer func() { _ = os.Chdir(oldwd) }()

	cfg, _, err := config.Load(cfgPath, true)
	if err != nil {
		t.Fatal(err)
	}
	cfg.DisableOnlineChecks()

	forge := simforge.New(sc.Platform)
	if sc.PerPage > 0 {
		forge.PerPage = sc.PerPage
	}
	if sc.Platform == "gitlab" && sc.MRs > 1 {
		forge.MRs = sc.MRs
	}
	digest := fnv.New64a()
	var simNs int64
	var lastSummary Summary
	havePush := false

	// settling rounds: no pushes, no faults, until two consecutive runs touch nothing
	rounds := append([]c17Round{}, sc.Rounds...)
	settleFrom := len(rounds)
	for i := 0; i < 60; i++ {
		rounds = append(rounds, c17Round{})
	}
	quiet := 0
	settleBudget := -1
	type gone struct {
		c     simforge.Comment
		head  string
		round int
	}
	var deletions []gone

	for ri, rd := range rounds {
		round := ri + 1
		settling := ri >= settleFrom
		if rd.Files != nil {
			must(repo.write(rd.Files))
			must(repo.commit(fmt.Sprintf("push %d", round)))
			havePush = true
		}
		if !havePush {
			continue
		}
		files, head, base, err := repo.prFiles()
		must(err)
		if len(files) == 0 {
			continue // nothing differs from the base branch: no pull request to comment on
		}
		var listed []simforge.File
		for i := 0; i < sc.OtherFiles; i++ {
			listed = append(listed, simforge.File{Path: fmt.Sprintf("docs/page%02d.md", i), Patch: "@@ -1 +1 @@\n-old\n+new"})
		}
		forge.Files, forge.Head, forge.Base = append(listed, files...), head, base
		modified := map[string]map[int]bool{}
		for _, f := range files {
			modified[f.Path] = map[int]bool{}
			old, nw := 0, 0
			for _, l := range strings.Split(f.Patch, "\n") {
				var a, b, c, d int
				if n, _ := fmt.Sscanf(l, "@@ -%d,%d +%d,%d @@", &a, &b, &c, &d); n == 4 {
					old, nw = a, c
					continue
				}
				switch {
				case strings.HasPrefix(l, "-"):
					old++
				case strings.HasPrefix(l, "+"):
					modified[f.Path][nw] = true
					nw++
				default:
					old++
					nw++
				}
			}
		}
		for _, fc := range rd.Foreign {
			if fc[0] < len(files) {
				forge.AddForeign(files[fc[0]].Path, fc[1], "I think this needs another look", false)
			}
		}
		if rd.Replies > 0 {
			n := 0
			for _, c := range forge.Snapshot() {
				if c.Author == simforge.PintUser && !c.General && n < rd.Replies {
					forge.ReplyInThread(c.ID)
					n++
					out.Probes["reply_in_pint_thread"]++
				}
			}
		}
		summary, err := lintCI(cfg)
		if err != nil {
			t.Fatalf("lint pipeline: %v", err)
		}
		lastSummary = summary
		before := forge.Snapshot()
		forge.BeginRun(round)
		faults := map[int]string{}
		for _, f := range rd.Faults {
			faults[f.N] = f.Mode
		}
		forge.FaultFn = func(n int, op string) simforge.Fault { return simforge.Fault{Mode: faults[n]} }

		var runErr error
		leak := detsim.Bubble(t, func() {
			nw := simnet.New()
			simnet.Use(nw)
			t0 := time.Now()
			sched := detsim.NewSched(sc.Sched, false, detsim.States)
			forge.Yield = sched.Yield
			sched.Start()
			srv := forge.Serve(nw, "forge.sim:80")
			var commenter Commenter
			switch sc.Platform {
			case "github":
				gr, err := NewGithubReporter(context.Background(), "v0.0.0", "http://forge.sim/", "http://forge.sim/", 10*time.Second, "token", "org", "repo", 1, sc.MaxComments, head, sc.ShowDups)
				if err != nil {
					panic(err)
				}
				commenter = gr
			default:
				cl, err := gitlab.NewClient("token", gitlab.WithBaseURL("http://forge.sim/api/v4"), gitlab.WithHTTPClient(nw.Client()), gitlab.WithCustomLeveledLogger(gitlabLogger{}))
				if err != nil {
					panic(err)
				}
				commenter = GitLabReporter{client: cl, version: "v0.0.0", branch: "pr", timeout: 10 * time.Second, project: 1, maxComments: sc.MaxComments}
			}
			runErr = Submit(context.Background(), summary, commenter, sc.ShowDups)
			simNs += int64(time.Since(t0))
			sched.Stop()
			forge.Yield = nil
			out.Sched.Decisions += sched.Decisions()
			_ = srv.Close()
			nw.Close()
		})
		if leak != "" {
			out.AddViolation("goroutine-leak", leak)
		}
		after := forge.Snapshot()
		calls := forge.CallsOfRound(round)
		fired := 0
		deleteFaulted := false
		lostAck := false
		for _, c := range calls {
			if (c.Fault == "lost-ack" || c.Fault == "late-ack") && c.Applied {
				lostAck = true // the platform applied a request whose answer never arrived: outside the property's quantifier
			}
			if c.Fault != "" {
				out.Faults[c.Fault]++
				fired++
				if c.Op == "delete-comment" {
					deleteFaulted = true
				}
			}
		}
		// every destination (merge request) is judged on its own: the budget, coverage and clean-up are per destination
		mrs := []int{0}
		if sc.Platform == "gitlab" {
			mrs = nil
			for i := 1; i <= forge.MRs; i++ {
				mrs = append(mrs, i)
			}
		}
		totalCreated, totalDeleted := 0, 0
		judgeMR := func(mr int) (int, int) {
			var beforeM, afterM []simforge.Comment
			for _, c := range before {
				if c.MR == mr {
					beforeM = append(beforeM, c)
				}
			}
			for _, c := range after {
				if c.MR == mr {
					afterM = append(afterM, c)
				}
			}
			// what changed in the store
			beforeByID := map[int64]simforge.Comment{}
			for _, c := range beforeM {
				beforeByID[c.ID] = c
			}
			afterByID := map[int64]simforge.Comment{}
			var created, deleted []simforge.Comment
			for _, c := range afterM {
				afterByID[c.ID] = c
				if _, ok := beforeByID[c.ID]; !ok && !c.General {
					created = append(created, c)
				}
			}
			for _, c := range beforeM {
				a, ok := afterByID[c.ID]
				if (!ok || a.Author != c.Author) && !c.General {
					deleted = append(deleted, c)
				}
			}
			if record {
				fmt.Printf("--- round %d err=%v created=%d deleted=%d\n", round, runErr, len(created), len(deleted))
				for _, rep := range summary.Reports() {
					fmt.Printf("   report %s:%d-%d %s | %s | dup=%v modlines=%v\n", rep.Path.Name, rep.Problem.Lines.First, rep.Problem.Lines.Last, rep.Problem.Reporter, rep.Problem.Summary, rep.IsDuplicate, rep.ModifiedLines)
				}
				for _, c := range afterM {
					fmt.Printf("   stored #%d author=%d %s:%d/%d general=%v round=%d body=%q\n", c.ID, c.Author, c.Path, c.Line, c.OldLine, c.General, c.Round, clipBody(c.Body))
				}
				for _, c := range calls {
					fmt.Printf("   call %d %s %s -> %d applied=%v fault=%s\n", c.N, c.Method, c.Op, c.Status, c.Applied, c.Fault)
				}
			}
			who := fmt.Sprintf("round %d (%s, merge request %d, maxComments=%d, %d problems, %d faults fired, err=%v)", round, sc.Platform, mr, sc.MaxComments, len(summary.Reports()), fired, runErr)
			fmt.Fprintf(digest, "%d:%d:%d:%v;", round, len(created), len(deleted), runErr != nil)

			// a comment that pint deletes and then posts again for the same head was deleted
			// although its problem was still being reported
			for _, c := range created {
				for _, g := range deletions {
					if g.head == head && g.c.Path == c.Path && g.c.Line == c.Line && g.c.OldLine == c.OldLine && trimBody(g.c.Body) == trimBody(c.Body) {
						out.AddViolation("live-comment-deleted", fmt.Sprintf("%s: re-created at %s:%d the comment that round %d had deleted (#%d) while the same commit was under review: it was deleted although its problem was still reported", who, c.Path, c.Line, g.round, g.c.ID))
					}
				}
			}
			for _, d := range deleted {
				if d.Author == simforge.PintUser {
					deletions = append(deletions, gone{c: d, head: head, round: round})
				}
			}
			// --- safety: holds after every run, completed or not ---
			for i, c := range created {
				if lostAck {
					// The platform applied a create whose answer never reached pint. Sending that create again
					// makes a comment equal to one that exists by then: the clause is about what exists on the
					// platform, not about what pint knows, so it is judged here like anywhere else (pint gives
					// the run up on such an error and recognises the comment on the next run).
					out.Probes["create_applied_but_unacknowledged"]++
				}
				for _, b := range beforeM {
					if !b.General && b.Path == c.Path && b.Line == c.Line && b.OldLine == c.OldLine && trimBody(b.Body) == trimBody(c.Body) {
						out.AddViolation("duplicate-comment-created", fmt.Sprintf("%s: created comment #%d at %s:%d although the equal comment #%d already existed", who, c.ID, c.Path, c.Line, b.ID))
					}
				}
				for _, o := range created[:i] {
					if o.Path == c.Path && o.Line == c.Line && o.OldLine == c.OldLine && trimBody(o.Body) == trimBody(c.Body) {
						out.AddViolation("duplicate-comment-created", fmt.Sprintf("%s: created the same comment twice (#%d and #%d) at %s:%d", who, o.ID, c.ID, c.Path, c.Line))
					}
				}
			}
			for _, d := range deleted {
				if d.Author != simforge.PintUser {
					out.AddViolation("foreign-comment-deleted", fmt.Sprintf("%s: deleted comment #%d at %s:%d written by user %d", who, d.ID, d.Path, d.Line, d.Author))
					continue
				}
				for _, rep := range summary.Reports() {
					if rep.IsDuplicate && !sc.ShowDups {
						continue
					}
					if matchesReport(d, rep, modified) && d.Commit == head {
						out.AddViolation("live-comment-deleted", fmt.Sprintf("%s: deleted comment #%d at %s:%d although %s `%s` is still reported there", who, d.ID, d.Path, d.Line, rep.Problem.Reporter, rep.Problem.Summary))
						break
					}
				}
			}
			if fired == 0 {
				for _, c := range afterM {
					if _, ok := beforeByID[c.ID]; ok || !c.General || c.Author != simforge.PintUser {
						continue
					}
					for _, b := range beforeM {
						if b.General && b.Author == simforge.PintUser && trimBody(b.Body) == trimBody(c.Body) {
							out.AddViolation("duplicate-general-comment", fmt.Sprintf("%s: posted general comment #%d although the identical general comment #%d was already there: %q", who, c.ID, b.ID, clipBody(c.Body)))
						}
					}
				}
			}
			if len(created) > sc.MaxComments {
				out.AddViolation("budget-exceeded", fmt.Sprintf("%s: created %d comments", who, len(created)))
			}
			if len(created) > 0 {
				out.Probes["run_created"]++
			}
			if len(deleted) > 0 {
				out.Probes["run_deleted"]++
			}
			if len(created) == sc.MaxComments {
				out.Probes["budget_exhausted"]++
			}
			if runErr != nil {
				return len(created), len(deleted)
			}

			// --- after a completed run ---
			deferred := len(created) == sc.MaxComments
			uncovered := 0
			inPR := map[string]bool{}
			for _, f := range files {
				inPR[f.Path] = true
			}
			for _, rep := range summary.Reports() {
				if (rep.IsDuplicate && !sc.ShowDups) || !inPR[rep.Path.SymlinkTarget] {
					continue
				}
				covered := false
				for _, c := range afterM {
					if c.Author == simforge.PintUser && matchesReport(c, rep, modified) {
						covered = true
						break
					}
				}
				if !covered {
					uncovered++
					if !deferred {
						out.AddViolation("problem-not-covered", fmt.Sprintf("%s: %s `%s` at %s:%d-%d has no comment and the budget was not exhausted (%d created)", who, rep.Problem.Reporter, rep.Problem.Summary, rep.Path.Name, rep.Problem.Lines.First, rep.Problem.Lines.Last, len(created)))
					}
				}
			}
			if uncovered > 0 && deferred {
				out.Probes["creation_deferred"]++
				out.Nontrivial = true
			}
			if sc.Platform == "gitlab" && !deleteFaulted {
				for _, c := range afterM {
					if c.Author != simforge.PintUser || c.General {
						continue
					}
					live := false
					for _, rep := range summary.Reports() {
						if matchesReport(c, rep, modified) {
							live = true
							break
						}
					}
					if !live {
						out.AddViolation("stale-comment-kept", fmt.Sprintf("%s: pint's comment #%d at %s:%d matches no current problem and was not removed", who, c.ID, c.Path, c.Line))
					}
				}
			}
			return len(created), len(deleted)
		}
		for _, mr := range mrs {
			c, d := judgeMR(mr)
			totalCreated += c
			totalDeleted += d
		}
		if runErr != nil {
			out.Probes["run_failed"]++
			quiet = 0
			continue
		}
		out.Probes["run_completed"]++
		whoR := fmt.Sprintf("round %d (%s, %d destination(s), maxComments=%d, %d problems)", round, sc.Platform, len(mrs), sc.MaxComments, len(summary.Reports()))
		// --- convergence and idempotence once faults and pushes stop ---
		if settling {
			if settleBudget < 0 {
				pending := 0
				for _, rep := range summary.Reports() {
					if !(rep.IsDuplicate && !sc.ShowDups) {
						pending++
					}
				}
				settleBudget = (pending+sc.MaxComments-1)/sc.MaxComments + 1
			}
			if totalCreated == 0 && totalDeleted == 0 {
				quiet++
				if quiet == 2 {
					out.Probes["converged"]++
					break
				}
			} else {
				if quiet > 0 {
					out.AddViolation("not-idempotent", fmt.Sprintf("%s: a run after a run that changed nothing created %d and deleted %d comments with unchanged results", whoR, totalCreated, totalDeleted))
				}
				quiet = 0
			}
			settleBudget--
			if settleBudget < -2 && quiet == 0 {
				out.AddViolation("no-convergence", fmt.Sprintf("%s: still creating/deleting comments (%d/%d) after more runs than ceil(pending/maxComments)+1 with unchanged results and no faults", whoR, totalCreated, totalDeleted))
				break
			}
		}
	}
	_ = lastSummary
	out.SimNanos = simNs
	out.Digest = digest.Sum64()
	out.Sched.Trace = digest.Sum64()
	out.Summary = map[string]any{"platform": sc.Platform, "max_comments": sc.MaxComments, "rounds": len(sc.Rounds), "comments_in_store": len(forge.Snapshot())}
	return out
}

func clipBody(s string) string {
	s = strings.ReplaceAll(s, "\n", " ")
	if len(s) > 150 {
		return s[:150]
	}
	return s
}
