// Package simnet is the in-memory network every simulated pint client talks
// through: net.Pipe pairs handed out by a dialer installed on
// http.DefaultTransport (which promapi.NewPrometheus clones).
package simnet

import (
	"context"
	"errors"
	"net"
	"net/http"
	"os"
	"sync"
	"sync/atomic"
	"syscall"
)

// DialAction is what the fault plan says about one connection attempt.
type DialAction int

const (
	DialOK DialAction = iota
	DialRefuse
	DialBlackHole // never completes: the client's own deadline has to fire
)

type addr string

func (a addr) Network() string { return "sim" }
func (a addr) String() string  { return string(a) }

// Listener is a net.Listener fed by Net.DialContext.
type Listener struct {
	ch     chan net.Conn
	closed chan struct{}
	once   sync.Once
	a      addr
}

func (l *Listener) Accept() (net.Conn, error) {
	select {
	case c := <-l.ch:
		return c, nil
	case <-l.closed:
		return nil, net.ErrClosed
	}
}

func (l *Listener) Close() error {
	l.once.Do(func() { close(l.closed) })
	return nil
}

func (l *Listener) Addr() net.Addr { return l.a }

type ctxKey int

const (
	// OpKey: a value stored under this key in the context a caller hands to pint
	// travels through pint and net/http down to the dialer, which reports it to
	// OnDialCtx - that is how an attempt is attributed to the operation that made it.
	OpKey ctxKey = iota
	// ConnTagKey: request contexts of the simulated servers carry the tag the
	// dial hook attached to the connection.
	ConnTagKey
)

// Host is one simulated endpoint ("prom0:9090").
type Host struct {
	L *Listener
	// OnDial is consulted for every connection attempt (ordinal from 0). Nil = DialOK.
	OnDial func(n int) DialAction
	// OnDialCtx, when set, replaces OnDial: it also sees the caller's OpKey value
	// and returns a tag that the server side finds in its request context.
	OnDialCtx func(n int, op any) (DialAction, any)
	dials     int
}

// TaggedConn is the server end of a connection with the dial hook's tag.
type TaggedConn struct {
	net.Conn
	Tag any
}

// ConnContext is an http.Server.ConnContext that exposes the connection tag.
func ConnContext(ctx context.Context, c net.Conn) context.Context {
	if tc, ok := c.(*TaggedConn); ok {
		return context.WithValue(ctx, ConnTagKey, tc.Tag)
	}
	return ctx
}

// Net is one run's network. It must be created and closed inside the bubble.
type Net struct {
	mu    sync.Mutex
	hosts map[string]*Host
	done  chan struct{}
	// counters
	Dials, Refused, BlackHoled atomic.Int64
}

func New() *Net {
	return &Net{hosts: map[string]*Host{}, done: make(chan struct{})}
}

// Listen registers a host and returns its listener.
func (n *Net) Listen(hostport string) *Host {
	h := &Host{L: &Listener{ch: make(chan net.Conn), closed: make(chan struct{}), a: addr(hostport)}}
	n.mu.Lock()
	n.hosts[hostport] = h
	n.mu.Unlock()
	return h
}

// Close releases black-holed dials and closes every listener.
func (n *Net) Close() {
	n.mu.Lock()
	defer n.mu.Unlock()
	select {
	case <-n.done:
	default:
		close(n.done)
	}
	for _, h := range n.hosts {
		h.L.Close()
	}
}

func refused(hostport string) error {
	return &net.OpError{Op: "dial", Net: "tcp", Addr: addr(hostport), Err: os.NewSyscallError("connect", syscall.ECONNREFUSED)}
}

type timeoutErr struct{}

func (timeoutErr) Error() string   { return "i/o timeout" }
func (timeoutErr) Timeout() bool   { return true }
func (timeoutErr) Temporary() bool { return true }

func (n *Net) DialContext(ctx context.Context, network, hostport string) (net.Conn, error) {
	n.Dials.Add(1)
	n.mu.Lock()
	h := n.hosts[hostport]
	var act DialAction
	var tag any
	if h != nil {
		k := h.dials
		h.dials++
		if h.OnDialCtx != nil {
			act, tag = h.OnDialCtx(k, ctx.Value(OpKey))
		} else if h.OnDial != nil {
			act = h.OnDial(k)
		}
	}
	n.mu.Unlock()
	if h == nil {
		n.Refused.Add(1)
		return nil, refused(hostport)
	}
	switch act {
	case DialRefuse:
		n.Refused.Add(1)
		return nil, refused(hostport)
	case DialBlackHole:
		n.BlackHoled.Add(1)
		select {
		case <-ctx.Done():
			return nil, &net.OpError{Op: "dial", Net: "tcp", Addr: addr(hostport), Err: timeoutErr{}}
		case <-n.done:
			return nil, errors.New("simnet: network closed")
		}
	}
	c1, c2 := net.Pipe()
	var srvEnd net.Conn = c2
	if tag != nil {
		srvEnd = &TaggedConn{Conn: c2, Tag: tag}
	}
	select {
	case h.L.ch <- srvEnd:
		return c1, nil
	case <-h.L.closed:
		n.Refused.Add(1)
		return nil, refused(hostport)
	case <-n.done:
		return nil, errors.New("simnet: network closed")
	}
}

var current atomic.Pointer[Net]

// Use makes n the network reached through http.DefaultTransport (and every
// clone of it made afterwards).
func Use(n *Net) { current.Store(n) }

var installOnce sync.Once

// InstallGlobalDialer points http.DefaultTransport at the simulated network.
// Call once per process before any pint client is constructed.
func InstallGlobalDialer() {
	installOnce.Do(func() {
		tr := http.DefaultTransport.(*http.Transport)
		tr.DialContext = func(ctx context.Context, network, hostport string) (net.Conn, error) {
			n := current.Load()
			if n == nil {
				return nil, refused(hostport)
			}
			return n.DialContext(ctx, network, hostport)
		}
		tr.DisableKeepAlives = true
		tr.ForceAttemptHTTP2 = false
		tr.Proxy = nil
	})
}

// Client returns an http.Client bound to n (for parties that accept a client
// instead of cloning the default transport).
func (n *Net) Client() *http.Client {
	return &http.Client{Transport: &http.Transport{
		DialContext:       n.DialContext,
		DisableKeepAlives: true,
	}}
}
