// Package simprom is the simulated Prometheus HTTP API (a stub) that sits on
// simnet. What it answers comes from a Backend; how it misbehaves comes from a
// fault function; when it answers is decided by the detsim scheduler.
package simprom

import (
	"context"
	"fmt"
	"net/http"
	"net/url"
	"sort"
	"strings"
	"sync"
	"time"

	"github.com/cloudflare/pint/verifsim/detsim"
	"github.com/cloudflare/pint/verifsim/simnet"
)

// Fault modes the handler can apply to one request.
const (
	ModeOK            = "ok"
	ModeStall         = "stall"          // accept, never answer: client deadline must fire
	ModeHTTP500       = "http500"        // plain-text 500
	ModeHTTP502       = "http502"        // plain-text 502
	ModeHTTP503       = "http503"        // plain-text 503
	ModeJSONServerErr = "json_server"    // 500 + {"status":"error","errorType":"server_error"}
	ModeJSONInternal  = "json_internal"  // 500 + errorType internal
	ModeJSONUnavail   = "json_unavail"   // 503 + errorType unavailable
	ModeJSONTimeout   = "json_timeout"   // 503 + errorType timeout
	ModeBadData       = "bad_data"       // 400 + errorType bad_data
	ModeExecution     = "execution"      // 422 + errorType execution
	ModeNotFound      = "notfound"       // 404 page not found
	ModeTruncated     = "truncated"      // 200, body cut short, connection closed
	ModeGarbage       = "garbage"        // 200, not JSON
	ModeWrongType     = "wrong_type"     // 200, success, resultType string
	ModeOKBadData     = "ok_bad_data"    // 200 whose JSON body says status=error, errorType=bad_data
	ModeJSONCanceled  = "json_canceled"  // 499 + errorType canceled: the server gave the query up (shutdown, a frontend's own deadline)
	ModeTruncClean    = "trunc_clean"    // 200 without a length, closed right after `"result":[` - the reader sees a clean end of stream
	ModeReset         = "reset"          // connection closed without a response
	ModeRefused       = "refused"        // dial level (never reaches the handler)
	ModeDialBlackHole = "dial_blackhole" // dial level
)

type Fault struct {
	Mode    string `json:"mode"`
	DelayNs int64  `json:"delay_ns,omitempty"` // simulated latency before the response
	// SplitBody: a healthy answer is delivered in two parts with a scheduling point in
	// between, so that something else (a sibling slice failing, a deadline) can happen
	// while the client is in the middle of reading the body
	SplitBody bool `json:"split_body,omitempty"`
}

// Request is one HTTP request as the server saw it.
type Request struct {
	ID       int
	Upstream int
	Ord      int // per-upstream arrival ordinal
	Endpoint string
	Identity string // endpoint + canonical parameters
	Form     url.Values
	Ctx      context.Context
	ConnTag  any // what the dial hook attached to this request's connection (simnet.ConnTagKey)

	ArriveSeq  int64
	EndSeq     int64  // 0 while in flight
	Outcome    string // "ok", fault mode applied, "aborted" (client went away first)
	Serial     int    // >0 for healthy answers
	ArriveTime time.Time
	EndTime    time.Time
}

func (r *Request) live() bool { return r.EndSeq == 0 && r.Ctx.Err() == nil }

// Backend produces the healthy answer.
type Backend interface {
	// Answer returns status code and JSON body for a healthy request. serial
	// is unique per (upstream, successful answer) and should be embedded so
	// callers' results are attributable.
	Answer(req *Request, serial int) (int, string)
}

// Server is one simulated upstream.
type Server struct {
	Index   int
	Host    string
	S       *detsim.Sched
	Backend Backend
	FaultFn func(req *Request) Fault
	// OnArrive is called (scheduler-serialised) after a request was logged and
	// may report an invariant violation.
	OnArrive func(srv *Server, req *Request)

	mu       sync.Mutex
	Log      []*Request
	nextID   int
	ord      int
	serial   int
	InFlight map[int]*Request
	hs       *http.Server
	Faults   map[string]int // fired, by mode
}

func NewServer(idx int, host string, s *detsim.Sched, b Backend) *Server {
	return &Server{Index: idx, Host: host, S: s, Backend: b, InFlight: map[int]*Request{}, Faults: map[string]int{}}
}

// Identity canonicalises a request: endpoint plus the parameters that make
// two requests "the same question" for a Prometheus server.
func Identity(endpoint string, form url.Values) string {
	keys := []string{}
	for k := range form {
		switch k {
		case "timeout", "stats":
			continue
		}
		keys = append(keys, k)
	}
	sort.Strings(keys)
	var sb strings.Builder
	sb.WriteString(endpoint)
	for _, k := range keys {
		sb.WriteString("&")
		sb.WriteString(k)
		sb.WriteString("=")
		sb.WriteString(strings.Join(form[k], ","))
	}
	return sb.String()
}

// LiveInFlight returns the requests that arrived, were not answered and whose
// client is still waiting.
func (srv *Server) LiveInFlight() []*Request {
	srv.mu.Lock()
	defer srv.mu.Unlock()
	out := []*Request{}
	for _, r := range srv.InFlight {
		if r.live() {
			out = append(out, r)
		}
	}
	sort.Slice(out, func(i, j int) bool { return out[i].ID < out[j].ID })
	return out
}

func (srv *Server) finish(req *Request, outcome string, serial int) {
	srv.mu.Lock()
	req.EndSeq = srv.S.Seq()
	req.EndTime = time.Now()
	req.Outcome = outcome
	req.Serial = serial
	delete(srv.InFlight, req.ID)
	if outcome != ModeOK && outcome != "aborted" && outcome != "aborted_midbody" {
		srv.Faults[outcome]++
	}
	srv.mu.Unlock()
}

func (srv *Server) ServeHTTP(w http.ResponseWriter, r *http.Request) {
	_ = r.ParseForm()
	endpoint := r.URL.Path
	ident := Identity(endpoint, r.Form)
	key := fmt.Sprintf("%d|%s", srv.Index, ident)

	// A request is in flight from the moment the server has read it: it is
	// logged here, in the sender's window, before any scheduling point.
	srv.mu.Lock()
	srv.nextID++
	req := &Request{
		ID: srv.nextID, Upstream: srv.Index, Ord: srv.ord, Endpoint: endpoint, Identity: ident,
		Form: r.Form, Ctx: r.Context(), ConnTag: r.Context().Value(simnet.ConnTagKey), ArriveSeq: srv.S.Seq(), ArriveTime: time.Now(),
	}
	srv.ord++
	srv.Log = append(srv.Log, req)
	srv.mu.Unlock()
	if srv.OnArrive != nil {
		srv.OnArrive(srv, req)
	}
	srv.mu.Lock()
	srv.InFlight[req.ID] = req
	srv.mu.Unlock()

	f := Fault{Mode: ModeOK}
	if srv.FaultFn != nil {
		f = srv.FaultFn(req)
	}
	if f.DelayNs > 0 {
		select {
		case <-time.After(time.Duration(f.DelayNs)):
		case <-r.Context().Done():
			srv.finish(req, "aborted", 0)
			return
		}
	}
	if f.Mode == ModeStall {
		<-r.Context().Done()
		srv.finish(req, ModeStall, 0)
		return
	}
	srv.S.Yield("srv.respond", key)
	if r.Context().Err() != nil {
		srv.finish(req, "aborted", 0)
		return
	}
	switch f.Mode {
	case ModeOK:
		srv.mu.Lock()
		srv.serial++
		serial := srv.serial
		srv.mu.Unlock()
		code, body := srv.Backend.Answer(req, serial)
		if f.SplitBody && len(body) > 8 && code/100 == 2 {
			// delivered in two parts; the request only counts as answered once the second part is out
			w.Header().Set("Content-Type", "application/json")
			w.WriteHeader(code)
			half := len(body) / 2
			_, _ = w.Write([]byte(body[:half]))
			if fl, ok := w.(http.Flusher); ok {
				fl.Flush()
			}
			srv.mu.Lock()
			srv.Faults["split_body"]++
			srv.mu.Unlock()
			srv.S.Yield("srv.body", key)
			if r.Context().Err() != nil {
				srv.finish(req, "aborted_midbody", 0)
				return
			}
			srv.finish(req, ModeOK, serial)
			_, _ = w.Write([]byte(body[half:]))
			return
		}
		// mark finished before the bytes leave: the client may proceed in the same window
		if code/100 == 2 {
			srv.finish(req, ModeOK, serial)
		} else {
			srv.finish(req, fmt.Sprintf("backend%d", code), 0)
		}
		w.Header().Set("Content-Type", "application/json")
		w.WriteHeader(code)
		_, _ = w.Write([]byte(body))
	case ModeHTTP500, ModeHTTP502, ModeHTTP503:
		srv.finish(req, f.Mode, 0)
		code := map[string]int{ModeHTTP500: 500, ModeHTTP502: 502, ModeHTTP503: 503}[f.Mode]
		w.Header().Set("Content-Type", "text/plain")
		w.WriteHeader(code)
		_, _ = w.Write([]byte("upstream fault injected\n"))
	case ModeJSONServerErr:
		srv.finish(req, f.Mode, 0)
		writeJSONErr(w, 500, "server_error", "injected server_error")
	case ModeJSONInternal:
		srv.finish(req, f.Mode, 0)
		writeJSONErr(w, 500, "internal", "injected internal error")
	case ModeJSONUnavail:
		srv.finish(req, f.Mode, 0)
		writeJSONErr(w, 503, "unavailable", "injected unavailable")
	case ModeJSONTimeout:
		srv.finish(req, f.Mode, 0)
		writeJSONErr(w, 503, "timeout", "injected query timeout")
	case ModeJSONCanceled:
		srv.finish(req, f.Mode, 0)
		writeJSONErr(w, 499, "canceled", "query was canceled in expression evaluation")
	case ModeBadData:
		srv.finish(req, f.Mode, 0)
		writeJSONErr(w, 400, "bad_data", "injected bad_data: parse error")
	case ModeExecution:
		srv.finish(req, f.Mode, 0)
		writeJSONErr(w, 422, "execution", "injected execution error")
	case ModeOKBadData:
		srv.finish(req, f.Mode, 0)
		writeJSONErr(w, 200, "bad_data", "injected bad_data in a 200 body")
	case ModeNotFound:
		srv.finish(req, f.Mode, 0)
		w.Header().Set("Content-Type", "text/plain")
		w.WriteHeader(404)
		_, _ = w.Write([]byte("404 page not found\n"))
	case ModeGarbage:
		srv.finish(req, f.Mode, 0)
		w.Header().Set("Content-Type", "application/json")
		w.WriteHeader(200)
		_, _ = w.Write([]byte("<html>this is not json</html>"))
	case ModeWrongType:
		srv.finish(req, f.Mode, 0)
		w.Header().Set("Content-Type", "application/json")
		w.WriteHeader(200)
		_, _ = w.Write([]byte(`{"status":"success","data":{"resultType":"string","result":[0,"x"]}}`))
	case ModeTruncated, ModeReset, ModeTruncClean:
		srv.finish(req, f.Mode, 0)
		hj, ok := w.(http.Hijacker)
		if !ok {
			panic("simprom: no hijacker")
		}
		conn, _, err := hj.Hijack()
		if err != nil {
			return
		}
		if f.Mode == ModeTruncClean {
			typ := "vector"
			if req.Endpoint == "/api/v1/query_range" {
				typ = "matrix"
			}
			_, _ = conn.Write([]byte("HTTP/1.1 200 OK\r\nContent-Type: application/json\r\nConnection: close\r\n\r\n{\"status\":\"success\",\"data\":{\"resultType\":\"" + typ + "\",\"result\":["))
		}
		if f.Mode == ModeTruncated {
			_, _ = conn.Write([]byte("HTTP/1.1 200 OK\r\nContent-Type: application/json\r\nContent-Length: 4096\r\nConnection: close\r\n\r\n{\"status\":\"success\",\"data\":{\"resultType\":\"matr"))
		}
		_ = conn.Close()
	default:
		panic("simprom: unknown fault mode " + f.Mode)
	}
}

func writeJSONErr(w http.ResponseWriter, code int, typ, msg string) {
	w.Header().Set("Content-Type", "application/json")
	w.WriteHeader(code)
	_, _ = w.Write([]byte(fmt.Sprintf(`{"status":"error","errorType":%q,"error":%q}`, typ, msg)))
}

// Start serves on the simulated network (inside the bubble).
func (srv *Server) Start(n *simnet.Net, onDial func(k int) simnet.DialAction) {
	srv.StartCtx(n, onDial, nil)
}

// StartCtx is Start with an attributing dial hook (see simnet.Host.OnDialCtx).
func (srv *Server) StartCtx(n *simnet.Net, onDial func(k int) simnet.DialAction, onDialCtx func(k int, op any) (simnet.DialAction, any)) {
	h := n.Listen(srv.Host)
	h.OnDial = onDial
	h.OnDialCtx = onDialCtx
	srv.hs = &http.Server{Handler: srv, ConnContext: simnet.ConnContext}
	go func() { _ = srv.hs.Serve(h.L) }()
}

func (srv *Server) Close() {
	if srv.hs != nil {
		_ = srv.hs.Close()
	}
}

// FaultCounts returns a copy of the fired-fault counters.
func (srv *Server) FaultCounts() map[string]int {
	srv.mu.Lock()
	defer srv.mu.Unlock()
	out := map[string]int{}
	for k, v := range srv.Faults {
		out[k] = v
	}
	return out
}

// Snapshot returns a copy of the request log.
func (srv *Server) Snapshot() []Request {
	srv.mu.Lock()
	defer srv.mu.Unlock()
	out := make([]Request, len(srv.Log))
	for i, r := range srv.Log {
		out[i] = *r
	}
	return out
}
