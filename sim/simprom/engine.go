package simprom

import (
	"context"
	"encoding/json"
	"fmt"
	"math"
	"sort"
	"strconv"
	"strings"
	"sync"
	"time"

	"github.com/prometheus/prometheus/model/histogram"
	"github.com/prometheus/prometheus/model/labels"
	"github.com/prometheus/prometheus/promql"
	"github.com/prometheus/prometheus/promql/parser"
	"github.com/prometheus/prometheus/storage"
	"github.com/prometheus/prometheus/tsdb/chunkenc"
	"github.com/prometheus/prometheus/tsdb/chunks"
	"github.com/prometheus/prometheus/util/annotations"

	"github.com/cloudflare/pint/internal/promapi"
)

// MemSeries is one stored time series.
type MemSeries struct {
	Labels  labels.Labels
	Samples []Sample // sorted by T
}

type Sample struct {
	T int64 // ms
	V float64
}

// MemDB is the in-memory TSDB behind the engine-backed simulated Prometheus.
type MemDB struct {
	Series []*MemSeries
}

type fsample struct {
	t int64
	f float64
}

func (s fsample) T() int64                      { return s.t }
func (s fsample) F() float64                    { return s.f }
func (s fsample) H() *histogram.Histogram       { return nil }
func (s fsample) FH() *histogram.FloatHistogram { return nil }
func (s fsample) Type() chunkenc.ValueType      { return chunkenc.ValFloat }
func (s fsample) Copy() chunks.Sample           { return s }

func (db *MemDB) Querier(mint, maxt int64) (storage.Querier, error) {
	return &memQuerier{db: db, mint: mint, maxt: maxt}, nil
}

type memQuerier struct {
	db         *MemDB
	mint, maxt int64
}

func (q *memQuerier) Select(_ context.Context, sortSeries bool, _ *storage.SelectHints, matchers ...*labels.Matcher) storage.SeriesSet {
	var out []storage.Series
	for _, s := range q.db.Series {
		ok := true
		for _, m := range matchers {
			if !m.Matches(s.Labels.Get(m.Name)) {
				ok = false
				break
			}
		}
		if !ok {
			continue
		}
		lo := sort.Search(len(s.Samples), func(i int) bool { return s.Samples[i].T >= q.mint })
		hi := sort.Search(len(s.Samples), func(i int) bool { return s.Samples[i].T > q.maxt })
		sm := make([]chunks.Sample, 0, hi-lo)
		for _, x := range s.Samples[lo:hi] {
			sm = append(sm, fsample{t: x.T, f: x.V})
		}
		out = append(out, storage.NewListSeries(s.Labels, sm))
	}
	if sortSeries {
		sort.Slice(out, func(i, j int) bool { return labels.Compare(out[i].Labels(), out[j].Labels()) < 0 })
	}
	return &sliceSeriesSet{series: out, idx: -1}
}

func (q *memQuerier) LabelValues(context.Context, string, *storage.LabelHints, ...*labels.Matcher) ([]string, annotations.Annotations, error) {
	return nil, nil, nil
}

func (q *memQuerier) LabelNames(context.Context, *storage.LabelHints, ...*labels.Matcher) ([]string, annotations.Annotations, error) {
	return nil, nil, nil
}

func (q *memQuerier) Close() error { return nil }

type sliceSeriesSet struct {
	series []storage.Series
	idx    int
}

func (s *sliceSeriesSet) Next() bool                        { s.idx++; return s.idx < len(s.series) }
func (s *sliceSeriesSet) At() storage.Series                { return s.series[s.idx] }
func (s *sliceSeriesSet) Err() error                        { return nil }
func (s *sliceSeriesSet) Warnings() annotations.Annotations { return nil }

// EngineBackend answers query and query_range by running the real PromQL
// engine over a MemDB, and config/flags/metadata from fixed documents.
type EngineBackend struct {
	DB       *MemDB
	Eng      *promql.Engine
	Config   string            // YAML for status/config
	Flags    map[string]string // status/flags
	Metadata map[string]string // metric -> type
	mu       sync.Mutex
	Queries  int
	// OnQuery, when set, runs before every answer with the instant the request arrived: a server
	// keeps scraping while it is being asked, so the owner can bring the database up to that instant.
	// Answers are then computed one at a time.
	OnQuery func(now time.Time)
	qmu     sync.Mutex
}

func NewEngineBackend(db *MemDB) *EngineBackend {
	eng := promql.NewEngine(promql.EngineOpts{
		MaxSamples:           50_000_000,
		Timeout:              10 * time.Minute,
		LookbackDelta:        5 * time.Minute,
		EnableAtModifier:     true,
		EnableNegativeOffset: true,
	})
	return &EngineBackend{
		DB: db, Eng: eng,
		Config:   "global:\n  scrape_interval: 1m\n  evaluation_interval: 1m\n  external_labels:\n    cluster: sim\n",
		Flags:    map[string]string{"query.max-samples": "50000000", "storage.tsdb.retention.time": "15d"},
		Metadata: map[string]string{},
	}
}

func parseAPITime(s string) (time.Time, error) {
	if t, err := strconv.ParseFloat(s, 64); err == nil {
		sec, ns := math.Modf(t)
		ns = math.Round(ns*1000) / 1000
		return time.Unix(int64(sec), int64(ns*float64(time.Second))).UTC(), nil
	}
	if t, err := time.Parse(time.RFC3339Nano, s); err == nil {
		return t, nil
	}
	return time.Time{}, fmt.Errorf("cannot parse %q to a valid timestamp", s)
}

func apiError(code int, typ, msg string) (int, string) {
	b, _ := json.Marshal(map[string]string{"status": "error", "errorType": typ, "error": msg})
	return code, string(b)
}

func fmtVal(v float64) string { return strconv.FormatFloat(v, 'f', -1, 64) }

func metricJSON(ls labels.Labels) string {
	m := map[string]string{}
	ls.Range(func(l labels.Label) { m[l.Name] = l.Value })
	b, _ := json.Marshal(m)
	return string(b)
}

const statsJSON = `"stats":{"timings":{"evalTotalTime":0.001,"resultSortTime":0,"queryPreparationTime":0.0001,"innerEvalTime":0.0005,"execQueueTime":0.0001,"execTotalTime":0.001},"samples":{"totalQueryableSamples":10,"peakSamples":5}}`

func (b *EngineBackend) Answer(req *Request, n int) (int, string) {
	if b.OnQuery != nil {
		b.qmu.Lock()
		defer b.qmu.Unlock()
		b.OnQuery(time.Now())
	}
	return b.answer(req, n)
}

func (b *EngineBackend) answer(req *Request, _ int) (int, string) {
	b.mu.Lock()
	b.Queries++
	b.mu.Unlock()
	switch req.Endpoint {
	case promapi.APIPathQuery:
		ts := time.Now()
		if v := req.Form.Get("time"); v != "" {
			var err error
			if ts, err = parseAPITime(v); err != nil {
				return apiError(400, "bad_data", err.Error())
			}
		}
		qry, err := b.Eng.NewInstantQuery(context.Background(), b.DB, nil, req.Form.Get("query"), ts)
		if err != nil {
			return apiError(400, "bad_data", "invalid parameter \"query\": "+err.Error())
		}
		defer qry.Close()
		res := qry.Exec(context.Background())
		if res.Err != nil {
			return apiError(422, "execution", res.Err.Error())
		}
		var sb strings.Builder
		switch v := res.Value.(type) {
		case promql.Vector:
			sb.WriteString(`{"status":"success","data":{"resultType":"vector","result":[`)
			for i, s := range v {
				if i > 0 {
					sb.WriteString(",")
				}
				fmt.Fprintf(&sb, `{"metric":%s,"value":[%d.%03d,%q]}`, metricJSON(s.Metric), s.T/1000, s.T%1000, fmtVal(s.F))
			}
			sb.WriteString(`],` + statsJSON + `}}`)
		case promql.Scalar:
			fmt.Fprintf(&sb, `{"status":"success","data":{"resultType":"scalar","result":[%d.%03d,%q]}}`, v.T/1000, v.T%1000, fmtVal(v.V))
		default:
			return apiError(422, "execution", fmt.Sprintf("unsupported result type %T", v))
		}
		return 200, sb.String()
	case promapi.APIPathQueryRange:
		start, err := parseAPITime(req.Form.Get("start"))
		if err != nil {
			return apiError(400, "bad_data", err.Error())
		}
		end, err := parseAPITime(req.Form.Get("end"))
		if err != nil {
			return apiError(400, "bad_data", err.Error())
		}
		stepF, err := strconv.ParseFloat(req.Form.Get("step"), 64)
		if err != nil || stepF <= 0 {
			return apiError(400, "bad_data", "zero or negative query resolution step widths are not accepted")
		}
		step := time.Duration(stepF * float64(time.Second))
		if end.Before(start) {
			return apiError(400, "bad_data", "end timestamp must not be before start time")
		}
		if end.Sub(start)/step > 11000 {
			return apiError(400, "bad_data", "exceeded maximum resolution of 11,000 points per timeseries. Try decreasing the query resolution (?step=XX)")
		}
		qry, err := b.Eng.NewRangeQuery(context.Background(), b.DB, nil, req.Form.Get("query"), start, end, step)
		if err != nil {
			return apiError(400, "bad_data", "invalid parameter \"query\": "+err.Error())
		}
		defer qry.Close()
		res := qry.Exec(context.Background())
		if res.Err != nil {
			return apiError(422, "execution", res.Err.Error())
		}
		m, ok := res.Value.(promql.Matrix)
		if !ok {
			return apiError(422, "execution", fmt.Sprintf("unsupported result type %T", res.Value))
		}
		var sb strings.Builder
		sb.WriteString(`{"status":"success","data":{"resultType":"matrix","result":[`)
		for i, s := range m {
			if i > 0 {
				sb.WriteString(",")
			}
			fmt.Fprintf(&sb, `{"metric":%s,"values":[`, metricJSON(s.Metric))
			for j, p := range s.Floats {
				if j > 0 {
					sb.WriteString(",")
				}
				fmt.Fprintf(&sb, `[%d.%03d,%q]`, p.T/1000, p.T%1000, fmtVal(p.F))
			}
			sb.WriteString(`]}`)
		}
		sb.WriteString(`],` + statsJSON + `}}`)
		return 200, sb.String()
	case promapi.APIPathConfig:
		j, _ := json.Marshal(map[string]any{"status": "success", "data": map[string]string{"yaml": b.Config}})
		return 200, string(j)
	case promapi.APIPathFlags:
		j, _ := json.Marshal(map[string]any{"status": "success", "data": b.Flags})
		return 200, string(j)
	case promapi.APIPathMetadata:
		m := req.Form.Get("metric")
		data := map[string][]map[string]string{}
		if typ, ok := b.Metadata[m]; ok {
			data[m] = []map[string]string{{"type": typ, "help": "simulated " + m, "unit": ""}}
		}
		j, _ := json.Marshal(map[string]any{"status": "success", "data": data})
		return 200, string(j)
	}
	return apiError(404, "bad_data", "unknown endpoint")
}

// Eval evaluates an instant query directly (the oracle's view of the same database).
func (b *EngineBackend) Eval(expr string, ts time.Time) (promql.Vector, error) {
	qry, err := b.Eng.NewInstantQuery(context.Background(), b.DB, nil, expr, ts)
	if err != nil {
		return nil, err
	}
	defer qry.Close()
	res := qry.Exec(context.Background())
	if res.Err != nil {
		return nil, res.Err
	}
	v, _ := res.Value.(promql.Vector)
	return v, nil
}

var _ = parser.ParseExpr
