package simprom

import (
	"fmt"
	"strconv"
	"strings"

	"github.com/cloudflare/pint/internal/promapi"
)

// SerialBackend answers every endpoint with a payload that carries the
// upstream index, a per-upstream serial number and the identity of the
// question, so that whatever a caller receives is attributable to exactly one
// server-side request.
type SerialBackend struct{}

func (SerialBackend) Answer(req *Request, serial int) (int, string) {
	up := req.Upstream
	switch req.Endpoint {
	case promapi.APIPathQuery:
		q := req.Form.Get("query")
		return 200, fmt.Sprintf(`{"status":"success","data":{"resultType":"vector","result":[{"metric":{"__name__":"answer","q":%q,"serial":"%d","up":"%d"},"value":[946684800,"%d"]}]}}`, q, serial, up, serial)
	case promapi.APIPathQueryRange:
		q := req.Form.Get("query")
		start := req.Form.Get("start")
		end := req.Form.Get("end")
		return 200, fmt.Sprintf(`{"status":"success","data":{"resultType":"matrix","result":[{"metric":{"__name__":"answer","q":%q,"serial":"%d","up":"%d","s":%q,"e":%q},"values":[[%s,"1"]]}]}}`, q, serial, up, start, end, start)
	case promapi.APIPathConfig:
		yaml := fmt.Sprintf("global:\n  external_labels:\n    serial: \"%d\"\n    up: \"%d\"\n", serial, up)
		return 200, fmt.Sprintf(`{"status":"success","data":{"yaml":%q}}`, yaml)
	case promapi.APIPathFlags:
		return 200, fmt.Sprintf(`{"status":"success","data":{"serial":"%d","up":"%d"}}`, serial, up)
	case promapi.APIPathMetadata:
		m := req.Form.Get("metric")
		return 200, fmt.Sprintf(`{"status":"success","data":{%q:[{"type":"gauge","help":"serial=%d up=%d metric=%s","unit":""}]}}`, m, serial, up, m)
	}
	return 404, `{"status":"error","errorType":"bad_data","error":"unknown endpoint"}`
}

// Answer is what a caller got, decoded back from a SerialBackend payload.
type Answer struct {
	Up     int
	Serial int
	Tag    string // question identity as echoed by the server
}

func atoi(s string) int { n, _ := strconv.Atoi(s); return n }

func DecodeQuery(qr *promapi.QueryResult) ([]Answer, error) {
	out := []Answer{}
	for _, s := range qr.Series {
		out = append(out, Answer{Up: atoi(s.Labels.Get("up")), Serial: atoi(s.Labels.Get("serial")), Tag: s.Labels.Get("q")})
	}
	if len(out) != 1 {
		return out, fmt.Errorf("expected 1 sample, got %d", len(out))
	}
	return out, nil
}

// DecodeRange returns one answer per slice, tagged "q|start|end".
func DecodeRange(rr *promapi.RangeQueryResult) []Answer {
	out := []Answer{}
	for _, r := range rr.Series.Ranges {
		out = append(out, Answer{
			Up: atoi(r.Labels.Get("up")), Serial: atoi(r.Labels.Get("serial")),
			Tag: r.Labels.Get("q") + "|" + r.Labels.Get("s") + "|" + r.Labels.Get("e"),
		})
	}
	return out
}

func DecodeConfig(c *promapi.ConfigResult) Answer {
	return Answer{Up: atoi(c.Config.Global.ExternalLabels["up"]), Serial: atoi(c.Config.Global.ExternalLabels["serial"])}
}

func DecodeFlags(f *promapi.FlagsResult) Answer {
	return Answer{Up: atoi(f.Flags["up"]), Serial: atoi(f.Flags["serial"])}
}

func DecodeMetadata(m *promapi.MetadataResult) (Answer, error) {
	if len(m.Metadata) != 1 {
		return Answer{}, fmt.Errorf("expected 1 metadata entry, got %d", len(m.Metadata))
	}
	var a Answer
	for _, f := range strings.Fields(m.Metadata[0].Help) {
		k, v, _ := strings.Cut(f, "=")
		switch k {
		case "serial":
			a.Serial = atoi(v)
		case "up":
			a.Up = atoi(v)
		case "metric":
			a.Tag = v
		}
	}
	return a, nil
}
