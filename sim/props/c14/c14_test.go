// C14: identical questions reach a Prometheus server once; concurrency stays bounded.
package c14

import (
	"context"
	"fmt"
	"hash/fnv"
	"io"
	"log/slog"
	"os"
	"sort"
	"strings"
	"sync"
	"testing"
	"time"

	"github.com/anishathalye/porcupine"
	"github.com/prometheus/client_golang/prometheus"
	"pgregory.net/rapid"

	"github.com/cloudflare/pint/internal/promapi"
	"github.com/cloudflare/pint/internal/verifhook"
	"github.com/cloudflare/pint/verifsim/detsim"
	"github.com/cloudflare/pint/verifsim/simnet"
	"github.com/cloudflare/pint/verifsim/simprom"
)

const (
	kQuery = iota
	kRange
	kConfig
	kFlags
	kMetadata
	kClean // FailoverGroup.CleanCache(): what `pint watch` does between iterations
)

var kindNames = []string{"query", "range", "config", "flags", "metadata", "cleancache"}

type Op struct {
	Kind    int   `json:"kind"`
	Q       int   `json:"q"`
	ThinkNs int64 `json:"think_ns,omitempty"`
	// CancelAfterNs: the caller's own context expires this long after the call started
	// (0 = never): the key must be released and nothing half-done may be cached
	CancelAfterNs int64 `json:"cancel_after_ns,omitempty"`
}

type FaultAt struct {
	Up    int           `json:"up"`
	Ord   int           `json:"ord"`
	Fault simprom.Fault `json:"fault"`
}

type DialFaultAt struct {
	Up     int `json:"up"`
	Ord    int `json:"ord"`
	Action int `json:"action"` // simnet.DialRefuse / DialBlackHole
}

type Scenario struct {
	Sched       detsim.SchedConfig `json:"sched"`
	Family      string             `json:"family"` // "burst": one lint-like run; "gaps": bursts separated by long simulated pauses
	Upstreams   int                `json:"upstreams"`
	Concurrency int                `json:"concurrency"`
	RateLimit   int                `json:"rate_limit"`
	TimeoutS    int                `json:"timeout_s"`
	ConfigTTLs  int                `json:"config_ttl_s"` // 0 = pint's default
	OffsetNs    int64              `json:"offset_ns"`    // simulated time before the first operation
	Overlap     bool               `json:"overlap"`      // range vocabulary includes one expression with two lookbacks
	Callers     [][]Op             `json:"callers"`
	Faults      []FaultAt          `json:"faults,omitempty"`
	DialFaults  []DialFaultAt      `json:"dial_faults,omitempty"`
	DelaysNs    []int64            `json:"delays_ns"` // server latency, cycled by request id
}

// range-question vocabulary: index -> (expr, lookback, step)
type rangeQ struct {
	expr     string
	lookback time.Duration
	step     time.Duration
}

func rangeVocab(overlap bool) []rangeQ {
	v := []rangeQ{
		{"count(m0)", 6 * time.Hour, 5 * time.Minute},
		{"count(m1)", 9 * time.Hour, 5 * time.Minute},
		{"count(m2)", 5 * time.Hour, 7 * time.Minute},
	}
	if overlap {
		// same expression and step as vocabulary entry 0 with a longer lookback:
		// the 2h-aligned middle slices of both are byte-identical requests
		v[2] = rangeQ{"count(m0)", 11 * time.Hour, 5 * time.Minute}
	}
	return v
}

func draw(rt *rapid.T) Scenario {
	var sc Scenario
	sc.Sched = detsim.DrawSchedPauses(rt, detsim.Scale(500, 1500))
	if rapid.IntRange(0, 9).Draw(rt, "family") < 7 {
		sc.Family = "burst"
	} else {
		sc.Family = "gaps"
	}
	sc.Upstreams = []int{1, 1, 1, 2, 2, 3}[rapid.IntRange(0, 5).Draw(rt, "upstreams")]
	sc.Concurrency = rapid.IntRange(1, 4).Draw(rt, "concurrency")
	sc.RateLimit = []int{1, 20, 100, 10000, 2000000000, 2000000000}[rapid.IntRange(0, 5).Draw(rt, "rl")]
	sc.TimeoutS = []int{1, 5, 30, 120}[rapid.IntRange(0, 3).Draw(rt, "timeout")]
	sc.ConfigTTLs = []int{0, 0, 1, 30, 600, 1800}[rapid.IntRange(0, 5).Draw(rt, "cfgttl")]
	sc.OffsetNs = rapid.Int64Range(0, int64(2*time.Hour)).Draw(rt, "offset")
	sc.Overlap = rapid.IntRange(0, 9).Draw(rt, "overlap") == 0
	if os.Getenv("VERIF_C14_NO_OVERLAP") != "" { // debugging aid only: never set by the registered checks
		sc.Overlap = false
	}
	vocab := rapid.IntRange(1, 3).Draw(rt, "vocab")
	ncallers := rapid.IntRange(2, detsim.Scale(8, 12)).Draw(rt, "callers")
	for c := 0; c < ncallers; c++ {
		nops := rapid.IntRange(1, detsim.Scale(4, 6)).Draw(rt, "nops")
		ops := []Op{}
		for i := 0; i < nops; i++ {
			var op Op
			op.Kind = []int{kQuery, kQuery, kQuery, kQuery, kRange, kRange, kConfig, kConfig, kFlags, kMetadata, kMetadata}[rapid.IntRange(0, 10).Draw(rt, "kind")]
			op.Q = rapid.IntRange(0, vocab-1).Draw(rt, "q")
			if rapid.IntRange(0, 11).Draw(rt, "cancel") == 0 {
				op.CancelAfterNs = rapid.Int64Range(1, int64(300*time.Millisecond)).Draw(rt, "cancelNs")
			}
			if sc.Family == "gaps" && rapid.IntRange(0, 9).Draw(rt, "clean") == 0 {
				op.Kind = kClean
			}
			if sc.Family == "burst" {
				if rapid.IntRange(0, 2).Draw(rt, "think") == 0 {
					op.ThinkNs = rapid.Int64Range(1, int64(50*time.Millisecond)).Draw(rt, "thinkNs")
				}
			} else {
				switch rapid.IntRange(0, 3).Draw(rt, "think") {
				case 0:
				case 1:
					op.ThinkNs = rapid.Int64Range(1, int64(time.Second)).Draw(rt, "thinkNs")
				case 2:
					op.ThinkNs = rapid.Int64Range(int64(time.Minute), int64(12*time.Minute)).Draw(rt, "thinkNs")
				default:
					op.ThinkNs = rapid.Int64Range(int64(20*time.Minute), int64(3*time.Hour)).Draw(rt, "thinkNs")
				}
			}
			ops = append(ops, op)
		}
		sc.Callers = append(sc.Callers, ops)
	}
	nd := rapid.IntRange(1, 5).Draw(rt, "ndelays")
	for i := 0; i < nd; i++ {
		sc.DelaysNs = append(sc.DelaysNs, rapid.Int64Range(0, int64(200*time.Millisecond)).Draw(rt, "delay"))
	}
	if rapid.IntRange(0, 9).Draw(rt, "faulty") >= 4 {
		nf := rapid.IntRange(1, 3).Draw(rt, "nfaults")
		modes := []string{
			simprom.ModeStall, simprom.ModeHTTP500, simprom.ModeHTTP503, simprom.ModeJSONServerErr, simprom.ModeBadData,
			simprom.ModeExecution, simprom.ModeTruncated, simprom.ModeGarbage, simprom.ModeReset, simprom.ModeNotFound,
		}
		for i := 0; i < nf; i++ {
			up := rapid.IntRange(0, sc.Upstreams-1).Draw(rt, "fup")
			ord := rapid.IntRange(0, 11).Draw(rt, "ford")
			if rapid.IntRange(0, 5).Draw(rt, "dialfault") == 0 {
				sc.DialFaults = append(sc.DialFaults, DialFaultAt{Up: up, Ord: ord, Action: rapid.IntRange(1, 2).Draw(rt, "dact")})
				continue
			}
			m := modes[rapid.IntRange(0, len(modes)-1).Draw(rt, "fmode")]
			sc.Faults = append(sc.Faults, FaultAt{Up: up, Ord: ord, Fault: simprom.Fault{Mode: m}})
		}
	}
	return sc
}

type event struct {
	Caller, Idx   int
	Op            Op
	Call, Ret     int64
	CallT, RetT   time.Time
	Err           string
	Answers       []simprom.Answer
	ExpectTagExpr string
}

func init() {
	simnet.InstallGlobalDialer()
	slog.SetDefault(slog.New(slog.NewTextHandler(io.Discard, nil)))
}

func TestC14(t *testing.T) {
	detsim.Main(t, detsim.Prop[Scenario]{ID: "C14", Draw: draw, Run: run})
}

func run(t *testing.T, sc Scenario, record bool) *detsim.Outcome {
	out := &detsim.Outcome{Probes: map[string]int{}, Faults: map[string]int{}}
	var mu sync.Mutex
	setViol := func(class, detail string) {
		mu.Lock()
		out.AddViolation(class, detail)
		mu.Unlock()
	}
	var events []event
	var logs [][]simprom.Request
	var simDur time.Duration
	var stats detsim.SchedStats
	live := true

	leak := detsim.Bubble(t, func() {
		s := detsim.NewSched(sc.Sched, record, detsim.States)
		verifhook.Yield = s.HookYield
		verifhook.LockerWrap = s.WrapLocker
		defer func() { verifhook.Yield = nil; verifhook.LockerWrap = nil }()
		nw := simnet.New()
		simnet.Use(nw)
		t0 := time.Now()

		faultMap := map[[2]int]simprom.Fault{}
		for _, f := range sc.Faults {
			faultMap[[2]int{f.Up, f.Ord}] = f.Fault
		}
		dialMap := map[[2]int]int{}
		for _, f := range sc.DialFaults {
			dialMap[[2]int{f.Up, f.Ord}] = f.Action
		}

		servers := []*simprom.Server{}
		proms := []*promapi.Prometheus{}
		for i := 0; i < sc.Upstreams; i++ {
			host := fmt.Sprintf("prom%d:9090", i)
			srv := simprom.NewServer(i, host, s, simprom.SerialBackend{})
			srv.FaultFn = func(req *simprom.Request) simprom.Fault {
				f, ok := faultMap[[2]int{req.Upstream, req.Ord}]
				if !ok {
					f = simprom.Fault{Mode: simprom.ModeOK}
				}
				if len(sc.DelaysNs) > 0 {
					f.DelayNs = sc.DelaysNs[req.ID%len(sc.DelaysNs)] + int64(req.ID) // +id: no two timers tie
				}
				return f
			}
			srv.OnArrive = func(srv *simprom.Server, req *simprom.Request) {
				others := srv.LiveInFlight()
				for _, o := range others {
					if o.Identity == req.Identity {
						setViol("single-flight", fmt.Sprintf("upstream %d: request #%d %s arrived while identical request #%d was still in flight", srv.Index, req.ID, req.Identity, o.ID))
					}
				}
				if len(others)+1 > sc.Concurrency {
					setViol("concurrency-bound", fmt.Sprintf("upstream %d: %d requests in flight with concurrency=%d (new: %s)", srv.Index, len(others)+1, sc.Concurrency, req.Identity))
				}
				if len(others)+1 == sc.Concurrency {
					mu.Lock()
					out.Probes["pool_saturated"]++
					mu.Unlock()
				}
			}
			idx := i
			srv.Start(nw, func(k int) simnet.DialAction {
				return simnet.DialAction(dialMap[[2]int{idx, k}])
			})
			servers = append(servers, srv)
			proms = append(proms, promapi.NewPrometheus("sim", "http://"+host, "http://public"+fmt.Sprint(i), nil, time.Duration(sc.TimeoutS)*time.Second, sc.Concurrency, sc.RateLimit, nil))
		}
		fg := promapi.NewFailoverGroup("sim", "http://prom0:9090", proms, true, "up", nil, nil, nil)
		reg := prometheus.NewRegistry()
		s.Start()
		fg.StartWorkers(reg)

		if sc.OffsetNs > 0 {
			time.Sleep(time.Duration(sc.OffsetNs))
		}
		start := time.Now()

		rv := rangeVocab(sc.Overlap)
		var wg sync.WaitGroup
		var budget time.Duration = time.Hour
		nops := 0
		for c, ops := range sc.Callers {
			for _, op := range ops {
				budget += time.Duration(op.ThinkNs)
				nops++
			}
			wg.Add(1)
			name := fmt.Sprintf("caller%02d", c)
			go func() {
				defer wg.Done()
				s.Name(name)
				s.Yield("start", name)
				ctx := context.Background()
				for i, op := range ops {
					if op.ThinkNs > 0 {
						time.Sleep(time.Duration(op.ThinkNs) + time.Duration(c*7+i)) // + identity: no two timers tie
					}
					s.Yield("op", name)
					ev := event{Caller: c, Idx: i, Op: op, CallT: time.Now()}
					ev.Call = s.Seq()
					var err error
					ctx := ctx
					if op.CancelAfterNs > 0 {
						var cancel context.CancelFunc
						ctx, cancel = context.WithTimeout(ctx, time.Duration(op.CancelAfterNs)+time.Duration(c*13+i))
						defer cancel()
					}
					switch op.Kind {
					case kClean:
						fg.CleanCache()
						mu.Lock()
						out.Probes["cleancache_called"]++
						mu.Unlock()
						continue
					case kQuery:
						ev.ExpectTagExpr = fmt.Sprintf("q%d", op.Q)
						var qr *promapi.QueryResult
						qr, err = fg.Query(ctx, ev.ExpectTagExpr)
						if err == nil {
							ev.Answers, err = simprom.DecodeQuery(qr)
							if err != nil {
								setViol("malformed-result", err.Error())
							}
							if len(ev.Answers) > 0 && qr.URI != fmt.Sprintf("http://public%d", ev.Answers[0].Up) {
								setViol("wrong-attribution", fmt.Sprintf("result URI %s but payload from upstream %d", qr.URI, ev.Answers[0].Up))
							}
						}
					case kRange:
						q := rv[op.Q%len(rv)]
						ev.ExpectTagExpr = q.expr
						var rr *promapi.RangeQueryResult
						rr, err = fg.RangeQuery(ctx, q.expr, promapi.NewRelativeRange(q.lookback, q.step))
						if err == nil {
							ev.Answers = simprom.DecodeRange(rr)
						}
					case kConfig:
						var cr *promapi.ConfigResult
						cr, err = fg.Config(ctx, time.Duration(sc.ConfigTTLs)*time.Second)
						if err == nil {
							ev.Answers = []simprom.Answer{simprom.DecodeConfig(cr)}
						}
					case kFlags:
						var fr *promapi.FlagsResult
						fr, err = fg.Flags(ctx)
						if err == nil {
							ev.Answers = []simprom.Answer{simprom.DecodeFlags(fr)}
						}
					case kMetadata:
						ev.ExpectTagExpr = fmt.Sprintf("meta%d", op.Q)
						var mr *promapi.MetadataResult
						mr, err = fg.Metadata(ctx, ev.ExpectTagExpr)
						if err == nil {
							var a simprom.Answer
							a, err = simprom.DecodeMetadata(mr)
							if err != nil {
								setViol("malformed-result", err.Error())
							}
							ev.Answers = []simprom.Answer{a}
						}
					}
					ev.Ret = s.Seq()
					ev.RetT = time.Now()
					if err != nil {
						ev.Err = err.Error()
					}
					s.Mix(fmt.Sprintf("%s#%d:%v:%s", name, i, ev.Answers, ev.Err))
					mu.Lock()
					events = append(events, ev)
					mu.Unlock()
				}
			}()
		}
		budget += time.Duration(nops*sc.Upstreams) * (time.Duration(sc.TimeoutS)*time.Second + 3*time.Second) * 8
		done := make(chan struct{})
		go func() { wg.Wait(); close(done) }()
		select {
		case <-done:
		case <-time.After(budget):
			live = false
		}
		simDur = time.Since(start)
		out.SimNanos = int64(time.Since(t0))
		for _, srv := range servers {
			logs = append(logs, srv.Snapshot())
			for k, v := range srv.FaultCounts() {
				out.Faults[k] += v
			}
		}
		out.Faults["refused"] += int(nw.Refused.Load())
		out.Faults["dial_blackhole"] += int(nw.BlackHoled.Load())
		s.Stop()
		stats = s.Stats()
		if live {
			fg.Close(reg)
		}
		for _, srv := range servers {
			srv.Close()
		}
		nw.Close()
	})
	out.Sched = stats
	if stats.Pauses > 0 {
		out.Probes["scheduler_pauses"] += stats.Pauses
	}
	if !live {
		setViol("liveness", fmt.Sprintf("callers did not finish within the simulated budget (leak: %s)", leak))
	} else if leak != "" {
		setViol("goroutine-leak", leak)
	}
	check(sc, events, logs, simDur, out, setViol)
	return out
}

// porcIn is the input of one operation of the per-(upstream, identity) register
// history: a server-side successful answer is a write of its serial, a
// caller-visible answer is a read.
type porcIn struct {
	write  bool
	serial int
}

func check(sc Scenario, events []event, logs [][]simprom.Request, simDur time.Duration, out *detsim.Outcome, setViol func(string, string)) {
	sort.Slice(events, func(i, j int) bool { return events[i].Call < events[j].Call })
	type rk struct {
		up     int
		serial int
	}
	bySerial := map[rk]*simprom.Request{}
	type ik struct {
		up    int
		ident string
	}
	succ := map[ik][]*simprom.Request{}
	for up := range logs {
		for i := range logs[up] {
			r := &logs[up][i]
			if r.Outcome == simprom.ModeOK {
				bySerial[rk{up, r.Serial}] = r
				succ[ik{up, r.Identity}] = append(succ[ik{up, r.Identity}], r)
			}
			if r.Outcome == simprom.ModeStall {
				out.Probes["deadline_fired"]++
			}
		}
	}
	digest := fnv.New64a()

	// (1) once per run
	if sc.Family == "burst" && simDur < time.Minute {
		out.Probes["once_checked"]++
		for k, rs := range succ {
			if strings.HasPrefix(k.ident, promapi.APIPathConfig) && sc.ConfigTTLs > 0 {
				// the caller chose this answer's lifetime itself: a refetch after
				// that lifetime is what it asked for; check (4) owns this case
				continue
			}
			if len(rs) > 1 {
				setViol("asked-twice", fmt.Sprintf("upstream %d answered %s successfully %d times within one %s run (requests #%d, #%d)", k.up, k.ident, len(rs), simDur, rs[0].ID, rs[1].ID))
			}
		}
	} else {
		for _, rs := range succ {
			if len(rs) > 1 {
				out.Probes["refetched_after_expiry"]++
			}
		}
	}

	// (2) attribution + (3) linearizability partitions
	parts := map[ik][]porcupine.Operation{}
	contended := false
	for ei, ev := range events {
		fmt.Fprintf(digest, "%d.%d:%v:%s;", ev.Caller, ev.Idx, ev.Answers, ev.Err)
		if ev.Err != "" {
			out.Probes["op_error"]++
			if ev.Op.CancelAfterNs > 0 && (strings.Contains(ev.Err, "timeout") || strings.Contains(ev.Err, "context")) {
				out.Probes["caller_cancelled"]++
			}
			continue
		}
		out.Probes["op_ok"]++
		for _, a := range ev.Answers {
			req := bySerial[rk{a.Up, a.Serial}]
			if req == nil {
				setViol("unattributable-result", fmt.Sprintf("caller %d op %d received serial %d of upstream %d which the server never produced", ev.Caller, ev.Idx, a.Serial, a.Up))
				continue
			}
			// the payload must answer the question that was asked
			switch ev.Op.Kind {
			case kQuery, kMetadata:
				if a.Tag != ev.ExpectTagExpr {
					setViol("wrong-answer", fmt.Sprintf("caller %d asked %s %q and received the answer to %q", ev.Caller, kindNames[ev.Op.Kind], ev.ExpectTagExpr, a.Tag))
				}
			case kRange:
				if !strings.HasPrefix(a.Tag, ev.ExpectTagExpr+"|") {
					setViol("wrong-answer", fmt.Sprintf("caller %d asked range %q and received a slice of %q", ev.Caller, ev.ExpectTagExpr, a.Tag))
				}
			}
			wantEndpoint := []string{promapi.APIPathQuery, promapi.APIPathQueryRange, promapi.APIPathConfig, promapi.APIPathFlags, promapi.APIPathMetadata, ""}[ev.Op.Kind]
			if req.Endpoint != wantEndpoint {
				setViol("wrong-answer", fmt.Sprintf("caller %d asked %s and received a %s payload", ev.Caller, wantEndpoint, req.Endpoint))
			}
			if req.EndSeq > ev.Ret {
				setViol("result-from-the-future", fmt.Sprintf("caller %d op %d returned before request #%d completed", ev.Caller, ev.Idx, req.ID))
			}
			spans := req.ArriveSeq > ev.Call && req.EndSeq < ev.Ret
			if spans {
				out.Probes["answer_fetched_during_op"]++
			} else {
				out.Probes["answer_from_cache"]++
			}
			if a.Up > 0 {
				out.Probes["failover_hop"]++
			}
			k := ik{a.Up, req.Identity}
			parts[k] = append(parts[k], porcupine.Operation{ClientId: ev.Caller, Input: porcIn{}, Call: ev.Call, Output: a.Serial, Return: ev.Ret, Metadata: ei})
		}
	}
	// Sequential specification: one register per (upstream, identity). A
	// successful server answer writes its serial (it becomes the cached answer);
	// a caller-visible answer must read the register's current value. Stale
	// answers after a newer fetch completed, answers nobody fetched and two
	// values for one fetch are all non-linearizable.
	model := porcupine.Model{
		Init: func() interface{} { return 0 },
		Step: func(state, input, output interface{}) (bool, interface{}) {
			in := input.(porcIn)
			if in.write {
				return true, in.serial
			}
			return output.(int) == state.(int), state
		},
	}
	for k, rs := range succ {
		if _, ok := parts[k]; !ok {
			continue
		}
		for _, r := range rs {
			parts[k] = append(parts[k], porcupine.Operation{ClientId: 100 + k.up, Input: porcIn{write: true, serial: r.Serial}, Call: r.ArriveSeq, Output: r.Serial, Return: r.EndSeq, Metadata: -r.ID})
		}
	}
	keys := make([]ik, 0, len(parts))
	for k := range parts {
		keys = append(keys, k)
	}
	sort.Slice(keys, func(i, j int) bool {
		if keys[i].up != keys[j].up {
			return keys[i].up < keys[j].up
		}
		return keys[i].ident < keys[j].ident
	})
	for _, k := range keys {
		ops := parts[k]
		if len(ops) > 1 {
			for i := 0; i < len(ops) && !contended; i++ {
				for j := i + 1; j < len(ops); j++ {
					if !ops[i].Input.(porcIn).write && !ops[j].Input.(porcIn).write && ops[i].Call < ops[j].Return && ops[j].Call < ops[i].Return {
						contended = true
						break
					}
				}
			}
		}
		if len(ops) > 40 {
			out.Probes["porcupine_skipped_long"]++
			continue
		}
		switch porcupine.CheckOperationsTimeout(model, ops, 20*time.Second) {
		case porcupine.Illegal:
			desc := []string{}
			for _, o := range ops {
				if o.Input.(porcIn).write {
					desc = append(desc, fmt.Sprintf("server[%d,%d]:=%d", o.Call, o.Return, o.Output))
				} else {
					desc = append(desc, fmt.Sprintf("caller%d[%d,%d]->%d", o.ClientId, o.Call, o.Return, o.Output))
				}
			}
			setViol("not-linearizable", fmt.Sprintf("upstream %d %s: caller-visible answers are not a linearizable history of one cached register: %s", k.up, k.ident, strings.Join(desc, " ")))
		case porcupine.Unknown:
			out.Probes["porcupine_unknown"]++
		default:
			out.Probes["porcupine_ok"]++
		}
	}
	if contended {
		out.Probes["contended_runs"]++
	}
	out.Nontrivial = contended

	// (4) explicit lifetime of Config answers: the TTL is the caller's argument
	ttl := time.Duration(sc.ConfigTTLs) * time.Second
	if ttl > 0 && ttl <= 30*time.Minute {
		for up := range logs {
			var lastOK *simprom.Request
			for i := range logs[up] {
				r := &logs[up][i]
				if r.Endpoint != promapi.APIPathConfig {
					continue
				}
				if lastOK != nil && r.ArriveTime.Before(lastOK.EndTime.Add(ttl)) {
					setViol("config-ttl", fmt.Sprintf("upstream %d: config asked again %s after a successful answer although every caller passed ttl=%s", up, r.ArriveTime.Sub(lastOK.EndTime), ttl))
				}
				if lastOK != nil {
					out.Probes["config_refetch_after_ttl"]++
				}
				if r.Outcome == simprom.ModeOK {
					lastOK = r
				}
			}
		}
	}
	out.Digest = digest.Sum64()
	out.Summary = map[string]any{"ops": len(events), "sim": simDur.String(), "requests": func() int {
		n := 0
		for _, l := range logs {
			n += len(l)
		}
		return n
	}()}
}
