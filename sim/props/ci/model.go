// Package ci holds the two-actor git history simulator behind C03 and C20:
// a scratch repository driven by a feature author and base-branch maintainers
// whose commits are interleaved by the scenario, a simulated commit clock (so
// hashes are a function of the scenario), the real `pint ci` binary evaluated
// after every feature commit, and a reference model of the rule files.
package ci

import (
	"encoding/json"
	"fmt"
	"os"
	"os/exec"
	"path/filepath"
	"sort"
	"strings"
	"time"
)

// Rule is the reference model's view of one rule: everything the property
// counts as its parsed content.
type Rule struct {
	Kind        string      `json:"kind"` // "alert" | "record"
	Name        string      `json:"name"`
	Expr        string      `json:"expr"`
	For         string      `json:"for,omitempty"`
	Labels      [][2]string `json:"labels,omitempty"`
	Annotations [][2]string `json:"annotations,omitempty"`
	Comments    []string    `json:"comments,omitempty"` // rule-level pint control comments
	// decorations that are NOT content: plain comments and blank lines in front of the rule
	Notes  []string `json:"notes,omitempty"`
	Blanks int      `json:"blanks,omitempty"`
}

type File struct {
	FileComments []string `json:"file_comments,omitempty"` // file-level pint control comments (content of every rule in the file)
	Rules        []Rule   `json:"rules"`
	Strict       bool     `json:"strict"` // rendered as groups: document instead of a bare list
	Broken       bool     `json:"broken,omitempty"`
}

type Tree map[string]*File

func (r Rule) contentKey() string {
	b, _ := json.Marshal([]any{r.Kind, r.Name, r.Expr, r.For, r.Labels, r.Annotations, sortedCopy(r.Comments)})
	return string(b)
}

func sortedCopy(s []string) []string {
	c := append([]string{}, s...)
	sort.Strings(c)
	return c
}

func (f *File) clone() *File {
	b, _ := json.Marshal(f)
	var c File
	_ = json.Unmarshal(b, &c)
	return &c
}

func (t Tree) clone() Tree {
	c := Tree{}
	for k, v := range t {
		c[k] = v.clone()
	}
	return c
}

// Span locates a rendered rule.
type Span struct {
	First, Last int // lines of the rule (first key line .. last line)
	ExprLine    int
}

// Render produces the YAML text and where each rule ended up.
func (f *File) Render() (string, []Span) {
	var sb strings.Builder
	line := 0
	w := func(s string) {
		sb.WriteString(s)
		sb.WriteString("\n")
		line++
	}
	for _, c := range f.FileComments {
		w(c)
	}
	ind := ""
	if f.Strict {
		w("groups:")
		w("- name: g")
		w("  rules:")
		ind = "  "
	}
	spans := make([]Span, 0, len(f.Rules))
	for _, r := range f.Rules {
		for i := 0; i < r.Blanks; i++ {
			w("")
		}
		for _, n := range r.Notes {
			w(ind + n)
		}
		var sp Span
		if r.Kind == "alert" {
			w(ind + "- alert: " + r.Name)
		} else {
			w(ind + "- record: " + r.Name)
		}
		sp.First = line
		for _, c := range r.Comments {
			w(ind + "  " + c)
		}
		w(ind + "  expr: " + r.Expr)
		sp.ExprLine = line
		if r.For != "" {
			w(ind + "  for: " + r.For)
		}
		if len(r.Labels) > 0 {
			w(ind + "  labels:")
			for _, kv := range r.Labels {
				w(ind + "    " + kv[0] + ": " + kv[1])
			}
		}
		if len(r.Annotations) > 0 {
			w(ind + "  annotations:")
			for _, kv := range r.Annotations {
				w(ind + "    " + kv[0] + ": " + kv[1])
			}
		}
		sp.Last = line
		spans = append(spans, sp)
	}
	if f.Broken {
		w(ind + "- alert: [unterminated")
		w(ind + "    expr: {{{")
	}
	return sb.String(), spans
}

// Commit is one step of the history.
type Commit struct {
	Actor   string           `json:"actor"` // "feature" | "base" | "rebase" | "merge"
	Renames [][2]string      `json:"renames,omitempty"`
	Set     map[string]*File `json:"set,omitempty"`
	Delete  []string         `json:"delete,omitempty"`
	Msg     string           `json:"msg"`
}

// Repo is the scratch repository owned by the simulator.
type Repo struct {
	Dir   string
	clock time.Time
	Cmds  int
	// Branch is the name of the branch under review ("feature" when empty)
	Branch string
}

// BranchNames: what people call their branches; the last ones end in the name of the base branch
var BranchNames = []string{"feature", "feature", "fix/rules", "cleanup/main", "backport/main"}

func (r *Repo) branch() string {
	if r.Branch == "" {
		return "feature"
	}
	return r.Branch
}

func NewRepo() (*Repo, error) {
	dir, err := os.MkdirTemp("", "verif-ci-")
	if err != nil {
		return nil, err
	}
	r := &Repo{Dir: dir, clock: time.Date(2024, 1, 1, 0, 0, 0, 0, time.UTC)}
	if _, err := r.Git("init", "-q", "-b", "main"); err != nil {
		return nil, err
	}
	return r, nil
}

func (r *Repo) Close() { _ = os.RemoveAll(r.Dir) }

// Git runs git with the simulated commit clock: every commit is one minute after the previous one.
func (r *Repo) Git(args ...string) (string, error) {
	r.Cmds++
	cmd := exec.Command("git", args...)
	cmd.Dir = r.Dir
	date := r.clock.Format(time.RFC3339)
	cmd.Env = append(os.Environ(),
		"GIT_AUTHOR_NAME=sim", "GIT_AUTHOR_EMAIL=sim@example.com", "GIT_COMMITTER_NAME=sim", "GIT_COMMITTER_EMAIL=sim@example.com",
		"GIT_AUTHOR_DATE="+date, "GIT_COMMITTER_DATE="+date, "GIT_CONFIG_NOSYSTEM=1", "HOME="+r.Dir, "LC_ALL=C",
	)
	out, err := cmd.CombinedOutput()
	if err != nil {
		return string(out), fmt.Errorf("git %s: %v: %s", strings.Join(args, " "), err, out)
	}
	return string(out), nil
}

func (r *Repo) WriteTree(t Tree) error {
	for p, f := range t {
		if err := r.WriteFile(p, f); err != nil {
			return err
		}
	}
	return nil
}

func (r *Repo) WriteFile(p string, f *File) error {
	full := filepath.Join(r.Dir, p)
	if err := os.MkdirAll(filepath.Dir(full), 0o755); err != nil {
		return err
	}
	txt, _ := f.Render()
	return os.WriteFile(full, []byte(txt), 0o644)
}

func (r *Repo) CommitAll(msg string) error {
	r.clock = r.clock.Add(time.Minute)
	if _, err := r.Git("add", "-A"); err != nil {
		return err
	}
	_, err := r.Git("commit", "-q", "-m", msg)
	return err
}

// Apply performs one commit of the history on the right branch.
func (r *Repo) Apply(c Commit) error {
	switch c.Actor {
	case "base":
		if _, err := r.Git("checkout", "-q", "main"); err != nil {
			return err
		}
		defer func() { _, _ = r.Git("checkout", "-q", r.branch()) }()
	case "rebase":
		r.clock = r.clock.Add(time.Minute)
		_, err := r.Git("rebase", "-q", "main")
		return err
	case "merge":
		// "Update branch": the base branch is merged into the branch under review
		r.clock = r.clock.Add(time.Minute)
		_, err := r.Git("merge", "-q", "--no-edit", "-m", c.Msg, "main")
		if err != nil {
			_, _ = r.Git("merge", "--abort")
		}
		return err
	}
	for _, rn := range c.Renames {
		if err := os.MkdirAll(filepath.Dir(filepath.Join(r.Dir, rn[1])), 0o755); err != nil {
			return err
		}
		if _, err := r.Git("mv", rn[0], rn[1]); err != nil {
			return err
		}
	}
	for _, p := range c.Delete {
		if _, err := r.Git("rm", "-q", p); err != nil {
			return err
		}
	}
	for p, f := range c.Set {
		if err := r.WriteFile(p, f); err != nil {
			return err
		}
	}
	return r.CommitAll(c.Msg)
}

// JSONReport is one entry of pint's --json output.
type JSONReport struct {
	Path     string `json:"path"`
	Reporter string `json:"reporter"`
	Problem  string `json:"problem"`
	Details  string `json:"details"`
	Severity string `json:"severity"`
	Lines    []int  `json:"lines"`
}

// RunPintCI runs the real binary in the repository.
func (r *Repo) RunPintCI(pint, cfg string) ([]JSONReport, string, error) {
	out := filepath.Join(filepath.Dir(cfg), "report.json")
	_ = os.Remove(out)
	// no --offline: pint registers `rule { report {} }` checks under the name of an online check
	// (query/cost), so offline mode would switch the state markers off; no server is configured anyway
	cmd := exec.Command(pint, "--config", cfg, "--no-color", "--log-level", "error", "--workers", "2", "ci", "--json", out)
	cmd.Dir = r.Dir
	cmd.Env = append(os.Environ(), "HOME="+r.Dir, "GIT_CONFIG_NOSYSTEM=1", "LC_ALL=C", "NO_COLOR=1")
	stderr, runErr := cmd.CombinedOutput()
	b, err := os.ReadFile(out)
	_ = os.Remove(out)
	if err != nil {
		return nil, string(stderr), fmt.Errorf("pint ci wrote no report (%v): %s", runErr, stderr)
	}
	var reps []JSONReport
	if err := json.Unmarshal(b, &reps); err != nil {
		tail := string(stderr)
		if len(tail) > 600 {
			tail = tail[len(tail)-600:]
		}
		return nil, string(stderr), fmt.Errorf("unreadable report: %v: %q; pint exit: %v; pint said: %s", err, b, runErr, tail)
	}
	return reps, string(stderr), nil
}

// ParseRendered reads back a file in the shape Render produces (after git merged two such
// files the text is no longer something the generator wrote). ok is false when the text is
// not in that shape; the caller must then refuse to judge the scenario.
func ParseRendered(text string) (f *File, ok bool) {
	f = &File{}
	lines := strings.Split(strings.TrimSuffix(text, "\n"), "\n")
	if text == "" {
		lines = nil
	}
	i := 0
	for i < len(lines) && strings.HasPrefix(lines[i], "# pint file/") {
		f.FileComments = append(f.FileComments, lines[i])
		i++
	}
	ind := ""
	if i+2 < len(lines) && lines[i] == "groups:" && lines[i+1] == "- name: g" && lines[i+2] == "  rules:" {
		f.Strict = true
		ind = "  "
		i += 3
	}
	var cur *Rule
	blanks := 0
	var notes []string
	section := ""
	flush := func() {
		if cur != nil {
			f.Rules = append(f.Rules, *cur)
			cur = nil
		}
	}
	for ; i < len(lines); i++ {
		l := lines[i]
		if l == "" {
			flush()
			blanks++
			continue
		}
		if !strings.HasPrefix(l, ind) {
			return nil, false
		}
		l = l[len(ind):]
		switch {
		case l == "- alert: [unterminated":
			flush()
			if i+1 >= len(lines) {
				return nil, false
			}
			i++
			f.Broken = true
		case strings.HasPrefix(l, "- alert: ") || strings.HasPrefix(l, "- record: "):
			flush()
			cur = &Rule{Blanks: blanks, Notes: notes}
			blanks, notes, section = 0, nil, ""
			if strings.HasPrefix(l, "- alert: ") {
				cur.Kind, cur.Name = "alert", strings.TrimPrefix(l, "- alert: ")
			} else {
				cur.Kind, cur.Name = "record", strings.TrimPrefix(l, "- record: ")
			}
		case strings.HasPrefix(l, "# "):
			flush()
			notes = append(notes, l)
		case cur == nil:
			return nil, false
		case strings.HasPrefix(l, "  # "):
			cur.Comments = append(cur.Comments, strings.TrimPrefix(l, "  "))
		case strings.HasPrefix(l, "  expr: "):
			cur.Expr = strings.TrimPrefix(l, "  expr: ")
		case strings.HasPrefix(l, "  for: "):
			cur.For = strings.TrimPrefix(l, "  for: ")
		case l == "  labels:":
			section = "labels"
		case l == "  annotations:":
			section = "annotations"
		case strings.HasPrefix(l, "    ") && section != "":
			kv := strings.SplitN(strings.TrimPrefix(l, "    "), ": ", 2)
			if len(kv) != 2 {
				return nil, false
			}
			if section == "labels" {
				cur.Labels = append(cur.Labels, [2]string{kv[0], kv[1]})
			} else {
				cur.Annotations = append(cur.Annotations, [2]string{kv[0], kv[1]})
			}
		default:
			return nil, false
		}
	}
	flush()
	if blanks > 0 || len(notes) > 0 {
		return nil, false // trailing decoration belongs to no rule: not something Render writes
	}
	if back, _ := f.Render(); back != text {
		return nil, false
	}
	for _, r := range f.Rules {
		// a textual merge can hang one rule's fields onto another (lines appended at the end of both versions):
		// a recording rule with annotations or `for` is not a rule the generator ever writes, and not a valid one
		if r.Kind == "record" && (len(r.Annotations) > 0 || r.For != "") || r.Expr == "" {
			return nil, false
		}
	}
	return f, true
}

// ReadTree parses every rule file of a revision back into the model.
func (r *Repo) ReadTree(rev string) (Tree, bool) {
	out, err := r.Git("ls-tree", "-r", "--name-only", rev)
	if err != nil {
		return nil, false
	}
	t := Tree{}
	for _, p := range strings.Split(strings.TrimSpace(out), "\n") {
		if p == "" || !strings.HasSuffix(p, ".yml") {
			continue
		}
		txt, err := r.Git("show", rev+":"+p)
		if err != nil {
			return nil, false
		}
		f, ok := ParseRendered(txt)
		if !ok {
			return nil, false
		}
		t[p] = f
	}
	return t, true
}
