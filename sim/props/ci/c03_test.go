package ci

import (
	"fmt"
	"hash/fnv"
	"os"
	"path/filepath"
	"sort"
	"strings"
	"testing"

	"pgregory.net/rapid"

	"github.com/cloudflare/pint/verifsim/detsim"
)

// ---------- generator ----------

var paths = []string{"rules/a.yml", "rules/b.yml", "rules/c.yml", "rules/sub/d.yml", "rules/sub/e.yml", "alerts.yml", "drafts/x.yml"}

// excluded: pint is configured not to look at these paths at all (parser.exclude)
func excluded(p string) bool { return strings.HasPrefix(p, "drafts/") }
var basePaths = []string{"base/x.yml", "base/y.yml"}
var names = []string{"Down", "HighErrors", "Latency", "job:up:sum", "job:errors:rate5m", "instance:load", "Flaky", "code:req:rate"}
var exprs = []string{"up == 0", "sum(foo) by (job) > 1", "rate(errors_total[5m]) > 0.1", "sum(up) by (job)", "sum(rate(errors_total[5m])) by (job)", "avg(node_load1) by (instance)", "bar < 3", "sum(rate(requests_total[5m])) by (code)"}
var fors = []string{"", "1m", "5m", "10m"}
var ruleComments = []string{"# pint disable promql/series", "# pint disable promql/rate", "# pint snooze 2099-01-01 alerts/for", "# pint rule/owner team-a",
	"# pint rule/set promql/series min-age 2h", "# pint rule/set promql/series min-age 6h", "# pint rule/set promql/series(up) ignore/label-value job"}
var fileComments = []string{"# pint file/disable promql/series", "# pint file/disable alerts/template", "# pint file/owner team-b"}

type C03Scenario struct {
	Init    Tree     `json:"init"`
	Commits []Commit `json:"commits"`
	DupRun  bool     `json:"dup_names"` // rule names may repeat inside one file: weaker oracle
	Strict  bool     `json:"strict"`
	Branch  string   `json:"branch,omitempty"` // name of the branch under review
	// bookkeeping carried with the scenario so that the oracle does not have to re-derive it
	Evaluations []Evaluation `json:"evaluations"`
}

// Evaluation is the reference model's snapshot after one feature commit.
type Evaluation struct {
	AfterCommit int               `json:"after_commit"` // index into Commits
	Fork        Tree              `json:"fork"`
	Head        Tree              `json:"head"`
	Origin      map[string]string `json:"origin"` // HEAD path -> path of the same file at the fork point ("" = none)
	// ViaExcluded: the file spent part of the branch's history under a path pint is configured
	// not to look at; what its "base version" is then is not something the property settles
	ViaExcluded map[string]bool `json:"via_excluded,omitempty"`
}

type gen struct {
	rt      *rapid.T
	dup     bool
	strict  bool
	counter int
}

func (g *gen) pick(label string, n int) int { return rapid.IntRange(0, n-1).Draw(g.rt, label) }

func (g *gen) newRule(f *File) Rule {
	kindAlert := g.pick("kind", 2) == 0
	var name string
	for try := 0; try < 20; try++ {
		name = names[g.pick("name", len(names))]
		// alert names without ':' and record names with ':' keeps both kinds well-formed
		isRec := strings.Contains(name, ":")
		if isRec == kindAlert {
			continue
		}
		used := false
		for _, r := range f.Rules {
			if r.Name == name {
				used = true
			}
		}
		if !used || g.dup {
			break
		}
		name = ""
	}
	if name == "" {
		g.counter++
		if kindAlert {
			name = fmt.Sprintf("Extra%d", g.counter)
		} else {
			name = fmt.Sprintf("extra:%d", g.counter)
		}
	}
	r := Rule{Name: name, Expr: exprs[g.pick("expr", len(exprs))]}
	if kindAlert {
		r.Kind = "alert"
		r.For = fors[g.pick("for", len(fors))]
		if g.pick("ann", 2) == 0 {
			r.Annotations = [][2]string{{"summary", fmt.Sprintf("text %d", g.pick("anntext", 4))}}
		}
	} else {
		r.Kind = "record"
	}
	if g.pick("lab", 3) == 0 {
		r.Labels = [][2]string{{"severity", []string{"page", "ticket"}[g.pick("sev", 2)]}}
	}
	if g.pick("cmt", 5) == 0 {
		r.Comments = []string{ruleComments[g.pick("rcomment", len(ruleComments))]}
	}
	return r
}

func (g *gen) newFile() *File {
	f := &File{Strict: g.strict}
	n := 1 + g.pick("nrules", 3)
	for i := 0; i < n; i++ {
		f.Rules = append(f.Rules, g.newRule(f))
	}
	if g.pick("fcomment", 6) == 0 {
		f.FileComments = []string{fileComments[g.pick("fc", len(fileComments))]}
	}
	return f
}

// mutate changes one file model in place; returns false when nothing changed.
func (g *gen) mutate(f *File, forkVersion *File) bool {
	before, _ := f.Render()
	switch g.pick("op", 12) {
	case 0: // add rule
		r := g.newRule(f)
		at := g.pick("at", len(f.Rules)+1)
		f.Rules = append(f.Rules[:at:at], append([]Rule{r}, f.Rules[at:]...)...)
	case 1: // delete rule
		if len(f.Rules) > 1 {
			at := g.pick("at", len(f.Rules))
			f.Rules = append(f.Rules[:at:at], f.Rules[at+1:]...)
		}
	case 2, 3, 4: // modify a field
		if len(f.Rules) > 0 {
			r := &f.Rules[g.pick("at", len(f.Rules))]
			switch g.pick("field", 5) {
			case 0:
				r.Expr = exprs[g.pick("expr", len(exprs))]
			case 1:
				if r.Kind == "alert" {
					r.For = fors[g.pick("for", len(fors))]
				} else {
					r.Expr = exprs[g.pick("expr", len(exprs))]
				}
			case 2:
				if len(r.Labels) == 0 {
					r.Labels = [][2]string{{"severity", "page"}}
				} else if g.pick("labop", 2) == 0 {
					r.Labels = nil
				} else {
					r.Labels = [][2]string{{"severity", []string{"page", "ticket", "none"}[g.pick("sev", 3)]}}
				}
			case 3:
				if r.Kind == "alert" {
					if len(r.Annotations) == 0 {
						r.Annotations = [][2]string{{"summary", "new text"}}
					} else {
						r.Annotations = [][2]string{{"summary", fmt.Sprintf("text %d", g.pick("anntext", 6))}}
					}
				} else {
					r.Labels = [][2]string{{"team", "b"}}
				}
			default:
				if len(r.Comments) == 0 {
					r.Comments = []string{ruleComments[g.pick("rcomment", len(ruleComments))]}
				} else {
					r.Comments = nil
				}
			}
		}
	case 5: // comment-only edit
		if len(f.Rules) > 0 {
			r := &f.Rules[g.pick("at", len(f.Rules))]
			if len(r.Notes) == 0 {
				r.Notes = []string{"# a note for humans"}
			} else {
				r.Notes = append(r.Notes, fmt.Sprintf("# another note %d", len(r.Notes)))
			}
		}
	case 6: // whitespace-only edit
		if len(f.Rules) > 0 {
			r := &f.Rules[g.pick("at", len(f.Rules))]
			r.Blanks = (r.Blanks + 1) % 3
		}
	case 7: // reorder
		if len(f.Rules) > 1 {
			i, j := g.pick("i", len(f.Rules)), g.pick("j", len(f.Rules))
			f.Rules[i], f.Rules[j] = f.Rules[j], f.Rules[i]
		}
	case 8: // file-level control comment
		if len(f.FileComments) == 0 {
			f.FileComments = []string{fileComments[g.pick("fc", len(fileComments))]}
		} else {
			f.FileComments = nil
		}
	case 9: // revert to the fork version
		if forkVersion != nil {
			*f = *forkVersion.clone()
		}
	case 10: // rename a rule (delete + add in the eyes of the property)
		if len(f.Rules) > 0 {
			r := &f.Rules[g.pick("at", len(f.Rules))]
			nr := g.newRule(f)
			if nr.Kind == r.Kind {
				r.Name = nr.Name
			}
		}
	default: // replace the rule by one of the other kind
		if len(f.Rules) > 0 {
			at := g.pick("at", len(f.Rules))
			f.Rules[at] = g.newRule(f)
		}
	}
	if !g.dup {
		seen := map[string]bool{}
		for _, r := range f.Rules {
			k := r.Kind + "/" + r.Name
			if seen[k] {
				return false // keep names unique per (file, kind) outside the tagged runs
			}
			seen[k] = true
		}
	}
	after, _ := f.Render()
	return before != after
}

func drawC03(rt *rapid.T) C03Scenario {
	g := &gen{rt: rt}
	g.dup = g.pick("dup", 8) == 0
	g.strict = g.pick("strict", 2) == 0
	sc := C03Scenario{DupRun: g.dup, Strict: g.strict, Init: Tree{}, Branch: BranchNames[g.pick("branch", len(BranchNames))]}
	// initial repository
	nf := 1 + g.pick("ninit", 3)
	for i := 0; i < nf; i++ {
		sc.Init[paths[i]] = g.newFile()
	}
	sc.Init[basePaths[0]] = g.newFile()

	fork := sc.Init.clone()
	mainT := sc.Init.clone()
	head := sc.Init.clone()
	origin := map[string]string{}
	deleted := map[string]string{}
	displaced := map[string]string{}
	viaExcluded := map[string]bool{}
	for p := range head {
		origin[p] = p
	}
	mainAhead := false
	merged := false // a merge of the base branch happened: no rebase afterwards
	sharedTouched := false // the base branch edited a file the feature branch also has: no rebase afterwards
	ncommits := 1 + g.pick("ncommits", detsim.Scale(6, 10))
	// motifs: multi-commit situations that uniform choice of operations almost never lines up
	// (a path freed by a deletion or a rename is taken over by another file, which is edited before and after)
	type step struct {
		op   int // fileop: 1 delete, 2 rename, 3 edit
		p, q string
	}
	var script []step
	if ks0 := sortedKeysNoBase(head); len(ks0) >= 2 {
		y := ks0[g.pick("my", len(ks0))]
		x := ks0[g.pick("mx", len(ks0))]
		free := ""
		for _, cand := range paths {
			if _, ok := head[cand]; !ok && !excluded(cand) {
				free = cand
			}
		}
		switch g.pick("motif", 10) {
		case 0:
			if x != y {
				script = []step{{3, y, ""}, {1, x, ""}, {2, y, x}, {3, x, ""}}
			}
		case 1:
			if x != y && free != "" {
				script = []step{{2, x, free}, {2, y, x}, {3, x, ""}, {3, free, ""}}
			}
		case 2:
			if free != "" {
				script = []step{{2, y, free}, {3, free, ""}}
			}
		case 3:
			if free != "" {
				script = []step{{2, y, free}, {2, free, y}, {3, y, ""}}
			}
		}
		if len(script) > 0 && g.pick("mskip", 3) == 0 {
			script = script[1:]
		}
	}
	if len(script)+1 > ncommits {
		ncommits = len(script) + 1
	}
	for c := 0; c < ncommits; c++ {
		roll := g.pick("actor", 10)
		var forced *step
		if len(script) > 0 && roll >= 2 {
			st := script[0]
			script = script[1:]
			if _, ok := head[st.p]; ok {
				forced = &st
				roll = 5
			} else {
				script = nil
			}
		}
		switch {
		case roll < 2: // base-branch maintainers
			cm := Commit{Actor: "base", Set: map[string]*File{}, Msg: fmt.Sprintf("base %d", c)}
			var p string
			if g.pick("baseshared", 4) == 0 {
				// the same file the feature branch may be editing (never merged back here)
				ks := sortedKeys(mainT)
				p = ks[g.pick("bp", len(ks))]
				sharedTouched = true
			} else {
				p = basePaths[g.pick("bp", len(basePaths))]
			}
			f, ok := mainT[p]
			if !ok {
				f = g.newFile()
			} else {
				f = f.clone()
				if !g.mutate(f, nil) {
					continue
				}
			}
			mainT[p] = f
			cm.Set[p] = f.clone()
			sc.Commits = append(sc.Commits, cm)
			mainAhead = true
			continue
		case roll == 2 && mainAhead && (sharedTouched || merged || g.pick("mergeinstead", 2) == 0):
			// "Update branch": the base branch is merged into the branch under review. Files both sides edited
			// are merged by git (a conflict ends the history); from here on the trees the oracle compares are
			// read back from the repository, the generator's own copies of shared files are stale.
			sc.Commits = append(sc.Commits, Commit{Actor: "merge", Msg: fmt.Sprintf("merge main %d", c)})
			for _, bp := range basePaths {
				if f, ok := mainT[bp]; ok {
					fork[bp] = f.clone()
					head[bp] = f.clone()
					origin[bp] = bp
				}
			}
			mainAhead = false
			merged = true
		case roll == 2 && mainAhead && !sharedTouched:
			// the feature author rebases onto the advanced base branch (base-only files, so no conflicts)
			sc.Commits = append(sc.Commits, Commit{Actor: "rebase", Msg: "rebase"})
			for _, bp := range basePaths {
				if f, ok := mainT[bp]; ok {
					fork[bp] = f.clone()
					head[bp] = f.clone()
					origin[bp] = bp
				}
			}
			mainAhead = false
		default:
			cm := Commit{Actor: "feature", Set: map[string]*File{}, Msg: fmt.Sprintf("feature %d", c)}
			ks := sortedKeysNoBase(head)
			op := g.pick("fileop", 10)
			if forced != nil {
				op = forced.op
			}
			switch {
			case op == 0 && len(ks) < len(paths): // add file
				var p string
				for _, cand := range paths {
					if _, ok := head[cand]; !ok {
						p = cand
						break
					}
				}
				f := g.newFile()
				head[p] = f
				cm.Set[p] = f.clone()
				if o, ok := deleted[p]; ok {
					origin[p] = o
					delete(deleted, p)
				} else {
					origin[p] = ""
				}
			case op == 1 && len(ks) > 1: // delete file
				p := ks[g.pick("fp", len(ks))]
				if forced != nil {
					p = forced.p
				}
				delete(head, p)
				cm.Delete = []string{p}
				deleted[p] = origin[p]
				delete(origin, p)
			case op == 2 && len(ks) > 0 && len(ks) < len(paths): // pure rename
				p := ks[g.pick("fp", len(ks))]
				var np string
				var freePaths []string
				for _, cand := range paths {
					if _, ok := head[cand]; !ok {
						freePaths = append(freePaths, cand)
					}
				}
				np = freePaths[len(freePaths)-1]
				if g.pick("anyfree", 2) == 0 {
					np = freePaths[g.pick("np", len(freePaths))]
				}
				if forced != nil {
					p, np = forced.p, forced.q
					if _, taken := head[np]; taken {
						continue
					}
				}
				head[np] = head[p]
				delete(head, p)
				origin[np] = origin[p]
				delete(origin, p)
				// a path that a deletion had freed is taken over: what was deleted there is remembered and comes
				// back into play when the newcomer moves on (in the comparison of the base and HEAD trees a file
				// created at that path later continues the deleted one)
				if o, ok := deleted[np]; ok {
					displaced[np] = o
				}
				delete(deleted, np)
				if o, ok := displaced[p]; ok {
					deleted[p] = o
					delete(displaced, p)
				}
				if viaExcluded[p] || excluded(p) || excluded(np) {
					viaExcluded[np] = true
				}
				if excluded(np) && !excluded(p) {
					// moved out of pint's sight: for pint the file is gone, and a file created
					// later at the old path continues the old one (like delete + re-add)
					deleted[p] = origin[np]
				}
				delete(viaExcluded, p)
				cm.Renames = [][2]string{{p, np}}
			default: // edit one or two files
				if len(ks) == 0 {
					continue
				}
				nedit := 1 + g.pick("nedit", 2)
				for e := 0; e < nedit; e++ {
					p := ks[g.pick("fp", len(ks))]
					if forced != nil && e == 0 {
						p = forced.p
					}
					if _, done := cm.Set[p]; done {
						continue
					}
					f := head[p].clone()
					var fv *File
					if o := origin[p]; o != "" {
						fv = fork[o]
					}
					if g.mutate(f, fv) {
						head[p] = f
						cm.Set[p] = f.clone()
					}
				}
			}
			if len(cm.Set) == 0 && len(cm.Delete) == 0 && len(cm.Renames) == 0 {
				continue
			}
			sc.Commits = append(sc.Commits, cm)
		}
		if len(sc.Commits) > 0 && sc.Commits[len(sc.Commits)-1].Actor != "base" {
			o := map[string]string{}
			for k, v := range origin {
				o[k] = v
			}
			ve := map[string]bool{}
			for k, v := range viaExcluded {
				ve[k] = v
			}
			sc.Evaluations = append(sc.Evaluations, Evaluation{AfterCommit: len(sc.Commits) - 1, Fork: fork.clone(), Head: head.clone(), Origin: o, ViaExcluded: ve})
		}
	}
	return sc
}

func sortedKeys(t Tree) []string {
	ks := make([]string, 0, len(t))
	for k := range t {
		ks = append(ks, k)
	}
	sort.Strings(ks)
	return ks
}

func sortedKeysNoBase(t Tree) []string {
	ks := []string{}
	for _, k := range sortedKeys(t) {
		if !strings.HasPrefix(k, "base/") {
			ks = append(ks, k)
		}
	}
	return ks
}

// ---------- reference classifier ----------

const (
	stAdded      = "added"
	stModified   = "modified"
	stRenamed    = "renamed"
	stUnmodified = "unmodified"
)

// classify returns the set of acceptable states of HEAD rule r.
func classify(ev *Evaluation, path string, f *File, idx int) []string {
	r := f.Rules[idx]
	o := ev.Origin[path]
	if ev.ViaExcluded[path] {
		return []string{stAdded, stModified, stRenamed, "via-excluded-path"}
	}
	if o == "" {
		return []string{stAdded}
	}
	bf, ok := ev.Fork[o]
	if !ok {
		return []string{stAdded}
	}
	fileSame := strings.Join(sortedCopy(pintFileComments(bf.FileComments)), "\n") == strings.Join(sortedCopy(pintFileComments(f.FileComments)), "\n")
	moved := o != path
	sameName, identical := false, false
	for _, b := range bf.Rules {
		if b.Kind == r.Kind && b.Name == r.Name {
			sameName = true
		}
		if b.contentKey() == r.contentKey() {
			identical = true
		}
	}
	// duplicates: rules are told apart by kind+name; when a file (version) holds the same
	// content twice no comparison can say which copy is which, and when it holds one name
	// several times a changed rule may be paired with any of them or with none
	cntHead, cntFork, nameHead, nameFork := 0, 0, 0, 0
	for _, h := range f.Rules {
		if h.contentKey() == r.contentKey() {
			cntHead++
		}
		if h.Kind == r.Kind && h.Name == r.Name {
			nameHead++
		}
	}
	for _, b := range bf.Rules {
		if b.contentKey() == r.contentKey() {
			cntFork++
		}
		if b.Kind == r.Kind && b.Name == r.Name {
			nameFork++
		}
	}
	if cntHead > 1 || cntFork > 1 {
		return []string{stUnmodified, stModified, stAdded, stRenamed, "content-duplicate"}
	}
	if !identical && (nameHead > 1 || nameFork > 1) {
		return []string{stModified, stAdded, stRenamed, "name-duplicate"}
	}
	switch {
	case identical && !moved && fileSame:
		return []string{stUnmodified}
	case identical && !moved:
		return []string{stModified} // the file-level control comments are part of every rule's content
	case identical && moved && fileSame:
		return []string{stRenamed}
	case (identical || sameName) && moved:
		return []string{stRenamed, stModified} // moved and changed: both names say "changed"
	case sameName:
		return []string{stModified}
	default:
		return []string{stAdded}
	}
}

// only disabling comments are part of what pint compares at file level
func pintFileComments(cs []string) []string {
	out := []string{}
	for _, c := range cs {
		if strings.Contains(c, "file/disable") || strings.Contains(c, "file/snooze") {
			out = append(out, c)
		}
	}
	return out
}

// ---------- the check ----------

const c03Config = `ci {
  baseBranch = "main"
}
parser {
  relaxed = [".*"]
  exclude = ["drafts/.*"]
}
checks {
  disabled = ["alerts/annotation", "alerts/comparison", "alerts/for", "alerts/template", "promql/aggregate", "promql/fragile", "promql/impossible", "promql/regexp", "promql/syntax", "rule/for", "rule/name", "rule/reject", "rule/link"]
}
rule {
  match { state = ["added"] }
  report {
    comment  = "STATE-added"
    severity = "info"
  }
}
rule {
  match { state = ["modified"] }
  report {
    comment  = "STATE-modified"
    severity = "warning"
  }
}
rule {
  match { state = ["renamed"] }
  report {
    comment  = "STATE-renamed"
    severity = "bug"
  }
}
rule {
  match { state = ["unmodified"] }
  report {
    comment  = "STATE-unmodified"
    severity = "fatal"
  }
}
rule {
  label "verif_default_state_marker" {
    required = true
    severity = "info"
  }
}
`

const c03ConfigStrict = `ci {
  baseBranch = "main"
}
parser {
  exclude = ["drafts/.*"]
}
checks {
  disabled = ["alerts/annotation", "alerts/comparison", "alerts/for", "alerts/template", "promql/aggregate", "promql/fragile", "promql/impossible", "promql/regexp", "promql/syntax", "rule/for", "rule/name", "rule/reject", "rule/link"]
}
` + "rule {\n  match { state = [\"added\"] }\n  report {\n    comment  = \"STATE-added\"\n    severity = \"info\"\n  }\n}\nrule {\n  match { state = [\"modified\"] }\n  report {\n    comment  = \"STATE-modified\"\n    severity = \"warning\"\n  }\n}\nrule {\n  match { state = [\"renamed\"] }\n  report {\n    comment  = \"STATE-renamed\"\n    severity = \"bug\"\n  }\n}\nrule {\n  match { state = [\"unmodified\"] }\n  report {\n    comment  = \"STATE-unmodified\"\n    severity = \"fatal\"\n  }\n}\nrule {\n  label \"verif_default_state_marker\" {\n    required = true\n    severity = \"info\"\n  }\n}\n"

var sevToState = map[string]string{"Information": stAdded, "Warning": stModified, "Bug": stRenamed, "Fatal": stUnmodified}

func pintBinary(t *testing.T) string {
	p := os.Getenv("VERIF_PINT")
	if p == "" {
		t.Fatal("VERIF_PINT (path of the pint binary built from the working tree) is not set")
	}
	return p
}

func TestC03(t *testing.T) {
	detsim.Main(t, detsim.Prop[C03Scenario]{ID: "C03", Draw: drawC03, Run: runC03})
}

func runC03(t *testing.T, sc C03Scenario, record bool) *detsim.Outcome {
	out := &detsim.Outcome{Probes: map[string]int{}, Faults: map[string]int{}}
	pint := pintBinary(t)
	repo, err := NewRepo()
	if err != nil {
		t.Fatal(err)
	}
	defer repo.Close()
	cfgDir, err := os.MkdirTemp("", "verif-ci-cfg-")
	if err != nil {
		t.Fatal(err)
	}
	defer os.RemoveAll(cfgDir)
	cfg := filepath.Join(cfgDir, "pint.hcl")
	cfgText := c03Config
	if sc.Strict {
		cfgText = c03ConfigStrict
	}
	if err := os.WriteFile(cfg, []byte(cfgText), 0o644); err != nil {
		t.Fatal(err)
	}
	must := func(err error) {
		if err != nil {
			t.Fatalf("simulated repository: %v", err)
		}
	}
	must(repo.WriteTree(sc.Init))
	must(repo.CommitAll("initial"))
	repo.Branch = sc.Branch
	_, _ = repo.Git("tag", "fork0")
	_, err = repo.Git("checkout", "-q", "-b", repo.branch())
	must(err)

	digest := fnv.New64a()
	mergedAt := -1
	tainted := map[string]bool{}
	const mergedMark = " [file changed on both branches and merged]"
	evalAt := map[int]*Evaluation{}
	for i := range sc.Evaluations {
		evalAt[sc.Evaluations[i].AfterCommit] = &sc.Evaluations[i]
	}
	for ci, c := range sc.Commits {
		if err := repo.Apply(c); err != nil {
			// a history git itself refuses (e.g. a conflicting rebase) is not a history of the property
			out.Probes["history_rejected_by_git"]++
			out.Summary = err.Error()
			return out
		}
		out.Probes["commit_"+c.Actor]++
		if len(c.Renames) > 0 {
			out.Probes["commit_with_rename"]++
		}
		ev := evalAt[ci]
		if c.Actor == "merge" {
			mergedAt = ci
		}
		if ev == nil {
			continue
		}
		if mergedAt >= 0 {
			// what the branch is compared with is the merge base, and what git made of files both sides
			// edited is whatever is in the repository: read both back instead of trusting the generator
			mb, err := repo.Git("merge-base", "main", "HEAD")
			if err != nil {
				t.Fatalf("simulated repository: %v", err)
			}
			ft, ok1 := repo.ReadTree(strings.TrimSpace(mb))
			ht, ok2 := repo.ReadTree("HEAD")
			if !ok1 || !ok2 {
				out.Probes["merge_result_not_in_model_shape"]++
				return out
			}
			evCopy := *ev
			evCopy.Fork, evCopy.Head = ft, ht
			o := map[string]string{}
			for hp := range ht {
				if op, ok := ev.Origin[hp]; ok {
					o[hp] = op
				} else if _, inBase := ft[hp]; inBase {
					o[hp] = hp
				} else {
					o[hp] = ""
				}
			}
			evCopy.Origin = o
			ev = &evCopy
			out.Probes["evaluation_after_merge"]++
			// files that the base branch changed too and that came together in the merge
			tainted = map[string]bool{}
			for hp, op := range o {
				for _, q := range []string{hp, op} {
					if q == "" {
						continue
					}
					if l, err := repo.Git("log", "--format=%H", "fork0.."+strings.TrimSpace(mb), "--", q); err == nil && strings.TrimSpace(l) != "" {
						tainted[hp] = true
					}
				}
			}
		}
		reps, stderr, err := repo.RunPintCI(pint, cfg)
		out.Sched.Decisions++
		if err != nil {
			out.AddViolation("pint-ci-failed", fmt.Sprintf("after commit %d (%s): %v", ci, c.Msg, err))
			return out
		}
		_ = stderr
		// index reports by the rule whose lines contain the problem's first line
		type key struct {
			path string
			line int
		}
		firstLineOf := func(path string, line int) int {
			f, ok := ev.Head[path]
			if !ok {
				return -line
			}
			_, spans := f.Render()
			for _, sp := range spans {
				if line >= sp.First && line <= sp.Last {
					return sp.First
				}
			}
			return -line
		}
		states := map[key][]string{}
		defaults := map[key]int{}
		for _, r := range reps {
			if len(r.Lines) == 0 {
				continue
			}
			k := key{r.Path, firstLineOf(r.Path, r.Lines[0])}
			switch r.Reporter {
			case "rule/report":
				states[k] = append(states[k], sevToState[r.Severity])
			case "rule/label":
				defaults[k]++
			}
		}
		for _, p := range sortedKeys(ev.Head) {
			f := ev.Head[p]
			if excluded(p) {
				out.Probes["file_in_excluded_path"]++
				continue // nothing may be reported there; any marker is caught as marker-on-unknown-rule below
			}
			_, spans := f.Render()
			for i, r := range f.Rules {
				want := classify(ev, p, f, i)
				k := key{p, spans[i].First}
				got := states[k]
				fmt.Fprintf(digest, "%d|%s|%d|%v;", ci, p, i, got)
				who := fmt.Sprintf("after commit %d (%s): rule `%s` at %s:%d", ci, c.Msg, r.Name, p, spans[i].First)
				if tainted[p] {
					who += mergedMark
					out.Probes["rule_in_file_merged_from_both_branches"]++
				}
				if len(got) != 1 {
					out.AddViolation("state-marker-count", fmt.Sprintf("%s: expected exactly one state, pint assigned %v (reference: %v)", who, got, want))
					continue
				}
				out.Probes["rule_"+want[0]]++
				ok := false
				for _, w := range want {
					if w == got[0] {
						ok = true
					}
				}
				changedRef := want[0] != stUnmodified
				changedGot := got[0] != stUnmodified
				if len(want) > 2 {
					out.Probes["dup_name_weak_oracle"]++
				}
				if !ok {
					cls := "misclassified"
					if changedRef && !changedGot {
						cls = "changed-rule-skipped"
					} else if !changedRef && changedGot {
						cls = "untouched-rule-reported-changed"
					}
					out.AddViolation(cls, fmt.Sprintf("%s: pint says %s, direct comparison of fork-point and HEAD content says %v (file at fork point: %q)", who, got[0], want, ev.Origin[p]))
				}
				// checks that by default apply to changed rules only
				if changedGot != (defaults[k] > 0) {
					out.AddViolation("default-state-mismatch", fmt.Sprintf("%s: state %s but the default-state check ran %d time(s)", who, got[0], defaults[k]))
				}
				if changedRef {
					out.Nontrivial = true
				}
				delete(states, k)
			}
		}
		for k, v := range states {
			mark := ""
			if tainted[k.path] {
				mark = mergedMark
			}
			out.AddViolation("marker-on-unknown-rule", fmt.Sprintf("after commit %d: state %v reported at %s:%d where the model has no rule%s", ci, v, k.path, k.line, mark))
		}
		out.Probes["evaluations"]++
	}
	out.Digest = digest.Sum64()
	out.Sched.Trace = digest.Sum64()
	out.Summary = map[string]any{"commits": len(sc.Commits), "evaluations": out.Probes["evaluations"], "git_commands": repo.Cmds}
	return out
}
