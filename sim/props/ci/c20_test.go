package ci

import (
	"fmt"
	"hash/fnv"
	"os"
	"path/filepath"
	"regexp"
	"sort"
	"strings"
	"testing"

	"github.com/prometheus/prometheus/model/labels"
	promParser "github.com/prometheus/prometheus/promql/parser"
	"pgregory.net/rapid"

	"github.com/cloudflare/pint/verifsim/detsim"
)

// C20: removing a rule that other rules depend on is reported, and only then.

var recNames = []string{"rec_a", "rec_b", "rec_c", "job:rec_d", "shared_x"}
var alertNames20 = []string{"Alpha", "Beta", "Gamma", "shared_x"}

type C20Scenario struct {
	Init    Tree     `json:"init"`
	Commits []Commit `json:"commits"`
	Strict  bool     `json:"strict"`
	Branch  string   `json:"branch,omitempty"` // name of the branch under review
	// Mixed: only paths under relaxed/ are parsed in relaxed mode (parser { relaxed = ["relaxed/.*"] }); files there are
	// bare rule lists, everywhere else they are strict documents. A bare list moved to a strict path does not parse
	// until its author rewrites it.
	Mixed       bool         `json:"mixed,omitempty"`
	Evaluations []Evaluation `json:"evaluations"`
}

var mixedPaths = []string{"rules/a.yml", "relaxed/r1.yml", "rules/b.yml", "relaxed/r2.yml", "rules/sub/d.yml", "alerts.yml", "relaxed/sub/r3.yml"}

func relaxedPath(p string) bool { return strings.HasPrefix(p, "relaxed/") }

// unparsable: pint cannot read the rules of this file where it is now
func (sc *C20Scenario) unparsable(p string, f *File) bool {
	return f.Broken || sc.Mixed && !f.Strict && !relaxedPath(p)
}

func (g *gen) refExpr() string {
	rec := func() string { return recNames[g.pick("rec", len(recNames))] }
	al := func() string { return alertNames20[g.pick("al", len(alertNames20))] }
	switch g.pick("shape", 12) {
	case 0:
		return rec() + " > 0"
	case 1:
		return "sum(" + rec() + ") by (job)"
	case 2:
		return rec() + " / " + rec()
	case 3:
		return `ALERTS{alertname="` + al() + `"}`
	case 4:
		return `ALERTS_FOR_STATE{alertname="` + al() + `"} > 0`
	case 5:
		return `count(ALERTS{alertname="` + al() + `", alertstate="firing"}) > 0`
	case 6: // regex matcher: must not count as a dependency
		return `ALERTS{alertname=~"` + al() + `"}`
	case 7: // negative matcher: must not count
		return `ALERTS{alertname!="` + al() + `"}`
	case 8: // two alerts in one expression
		return `ALERTS{alertname="` + al() + `"} and on() ALERTS{alertname="` + al() + `"}`
	case 9:
		return "rate(" + rec() + "[5m]) > 0 and on(job) " + rec() + " == 1"
	case 10:
		return `sum(` + rec() + `{job="x"}) without(instance) unless ` + rec()
	default:
		return "up == 0"
	}
}

func (g *gen) newRule20(f *File, all Tree) Rule {
	kindAlert := g.pick("kind", 2) == 0
	var name string
	for try := 0; try < 20; try++ {
		if kindAlert {
			name = alertNames20[g.pick("aname", len(alertNames20))]
		} else {
			name = recNames[g.pick("rname", len(recNames))]
		}
		used := false
		for _, r := range f.Rules {
			if r.Name == name {
				used = true // one name once per file, whatever the kind: keeps before/after pairing unambiguous
			}
		}
		if !used {
			break
		}
		name = ""
	}
	if name == "" {
		g.counter++
		if kindAlert {
			name = fmt.Sprintf("Extra%d", g.counter)
		} else {
			name = fmt.Sprintf("extra_%d", g.counter)
		}
	}
	r := Rule{Name: name, Expr: g.refExpr()}
	if kindAlert {
		r.Kind = "alert"
		r.For = fors[g.pick("for", len(fors))]
	} else {
		r.Kind = "record"
	}
	return r
}

func drawC20(rt *rapid.T) C20Scenario {
	g := &gen{rt: rt}
	mode := g.pick("mode", 5)
	g.strict = mode < 2
	sc := C20Scenario{Strict: g.strict, Mixed: mode == 4, Init: Tree{}, Branch: BranchNames[g.pick("branch", len(BranchNames))]}
	allPaths := paths
	if sc.Mixed {
		allPaths = mixedPaths
		sc.Strict = false
	}
	nf := 2 + g.pick("ninit", 3)
	for i := 0; i < nf; i++ {
		f := &File{Strict: g.strict}
		if sc.Mixed {
			f.Strict = !relaxedPath(allPaths[i])
		}
		n := 1 + g.pick("nrules", 4)
		for j := 0; j < n; j++ {
			f.Rules = append(f.Rules, g.newRule20(f, sc.Init))
		}
		sc.Init[allPaths[i]] = f
	}
	fork := sc.Init.clone()
	head := sc.Init.clone()
	origin := map[string]string{}
	for p := range head {
		origin[p] = p
	}
	// what an author does when saving a file: a bare list under a strict path gets rewritten as a strict document
	fixFormat := func(p string, f *File) {
		if sc.Mixed && !relaxedPath(p) {
			f.Strict = true
		}
	}
	type step struct {
		op   string
		p, q string
	}
	var script []step
	// motifs: multi-commit situations that uniform choice of operations almost never lines up
	ks0 := sortedKeys(head)
	nmotif := 8
	if sc.Mixed {
		nmotif = 4 // the parser modes only matter once a file changes directory
	}
	switch g.pick("motif", nmotif) {
	case 0: // a path is freed by a deletion and taken over by a renamed file that was edited before
		y := ks0[g.pick("my", len(ks0))]
		x := ks0[g.pick("mx", len(ks0))]
		if sc.Mixed && g.pick("mcross", 2) == 0 {
			// the newcomer arrives from the directory with the other parser mode
			for _, cand := range ks0 {
				if relaxedPath(cand) != relaxedPath(x) {
					y = cand
				}
			}
		}
		if x != y {
			script = []step{{"add", y, ""}, {"delete", x, ""}, {"rename", y, x}, {"remove", x, ""}}
			if g.pick("mskip", 3) == 0 {
				script = script[1:]
			}
		}
	case 1: // rename, then edit the renamed file
		y := ks0[g.pick("my", len(ks0))]
		for _, cand := range allPaths {
			if _, ok := head[cand]; !ok && (g.pick("mcand", 2) == 0 || cand == allPaths[len(allPaths)-1]) {
				script = []step{{"rename", y, cand}, {"remove", cand, ""}}
				break
			}
		}
	case 2: // rename there and back again, then edit
		y := ks0[g.pick("my", len(ks0))]
		for _, cand := range allPaths {
			if _, ok := head[cand]; !ok {
				script = []step{{"rename", y, cand}, {"rename", cand, y}, {"remove", y, ""}}
				break
			}
		}
	}
	ncommits := 1 + g.pick("ncommits", detsim.Scale(5, 7))
	if len(script) > ncommits {
		ncommits = len(script)
	}
	mainT := sc.Init.clone()
	baseActive := g.pick("baseactive", 3) == 0
	for c := 0; c < ncommits; c++ {
		if baseActive && g.pick("basenow", 3) == 0 {
			// Meanwhile on the base branch: rules are dropped or added in the same files. The branch is not
			// rebased, so what it removed is still judged against the fork point, not against this.
			mk := sortedKeys(mainT)
			bp := mk[g.pick("bp", len(mk))]
			bf := mainT[bp].clone()
			if len(bf.Rules) > 1 && g.pick("bop", 2) == 0 {
				at := g.pick("bat", len(bf.Rules))
				bf.Rules = append(bf.Rules[:at:at], bf.Rules[at+1:]...)
			} else {
				bf.Rules = append(bf.Rules, g.newRule20(bf, mainT))
			}
			mainT[bp] = bf
			sc.Commits = append(sc.Commits, Commit{Actor: "base", Set: map[string]*File{bp: bf.clone()}, Msg: fmt.Sprintf("base %d", c)})
			sc.Evaluations = append(sc.Evaluations, Evaluation{AfterCommit: -1})
			if g.pick("mergenow", 3) == 0 {
				// "Update branch": from here on the oracle compares trees read back from the repository
				sc.Commits = append(sc.Commits, Commit{Actor: "merge", Msg: fmt.Sprintf("merge main %d", c)})
				o := map[string]string{}
				for k, v := range origin {
					o[k] = v
				}
				sc.Evaluations = append(sc.Evaluations, Evaluation{AfterCommit: len(sc.Commits) - 1, Fork: fork.clone(), Head: head.clone(), Origin: o})
			}
		}
		cm := Commit{Actor: "feature", Set: map[string]*File{}, Msg: fmt.Sprintf("feature %d", c)}
		ks := sortedKeys(head)
		if len(ks) == 0 {
			break
		}
		var st step
		if c < len(script) {
			st = script[c]
			if _, ok := head[st.p]; !ok {
				break
			}
		} else {
			st.p = ks[g.pick("fp", len(ks))]
			switch op := g.pick("op", 10); {
			case op == 0 && len(ks) > 1:
				st.op = "delete"
			case op == 1 && len(ks) < len(allPaths):
				st.op = "rename"
				var free []string
				for _, cand := range allPaths {
					if _, ok := head[cand]; !ok {
						free = append(free, cand)
					}
				}
				st.q = free[g.pick("np", len(free))]
			case op == 2:
				st.op = "add"
			default:
				st.op = "remove"
			}
		}
		p := st.p
		switch st.op {
		case "delete": // remove a whole file
			delete(head, p)
			delete(origin, p)
			cm.Delete = []string{p}
		case "rename": // pure rename (possibly onto a path that a deletion freed earlier)
			np := st.q
			head[np] = head[p]
			delete(head, p)
			origin[np] = origin[p]
			delete(origin, p)
			cm.Renames = [][2]string{{p, np}}
		case "add": // an edit that removes nothing
			f := head[p].clone()
			f.Rules = append(f.Rules, g.newRule20(f, head))
			fixFormat(p, f)
			head[p] = f
			cm.Set[p] = f.clone()
		default: // remove one or more rules from a file; sometimes add a replacement elsewhere, sometimes break the file
			f := head[p].clone()
			var removed []Rule
			nrm := 1 + g.pick("nremove", 2)
			for k := 0; k < nrm && len(f.Rules) > 0; k++ {
				at := g.pick("at", len(f.Rules))
				removed = append(removed, f.Rules[at])
				f.Rules = append(f.Rules[:at:at], f.Rules[at+1:]...)
			}
			switch g.pick("extra", 6) {
			case 0: // re-add an equivalent provider in another file
				if len(removed) > 0 && len(ks) > 1 {
					q := ks[g.pick("qp", len(ks))]
					if q != p {
						qf := head[q].clone()
						clash := false
						for _, r := range qf.Rules {
							if r.Name == removed[0].Name {
								clash = true
							}
						}
						if !clash {
							qf.Rules = append(qf.Rules, removed[0])
							fixFormat(q, qf)
							head[q] = qf
							cm.Set[q] = qf.clone()
						}
					}
				}
			case 1: // a provider of the other kind under the same name is not a replacement
				if len(removed) > 0 && removed[0].Name == "shared_x" {
					nr := Rule{Name: "shared_x", Expr: "up == 0"}
					if removed[0].Kind == "alert" {
						nr.Kind = "record"
					} else {
						nr.Kind = "alert"
					}
					f.Rules = append(f.Rules, nr)
				}
			case 2:
				f.Broken = true
			case 3: // add a new dependant while removing
				f.Rules = append(f.Rules, g.newRule20(f, head))
			}
			if len(f.Rules) == 0 && !f.Broken {
				f.Rules = append(f.Rules, Rule{Kind: "record", Name: "keep_file_nonempty", Expr: "up"})
			}
			fixFormat(p, f)
			head[p] = f
			cm.Set[p] = f.clone()
		}
		sc.Commits = append(sc.Commits, cm)
		o := map[string]string{}
		for k, v := range origin {
			o[k] = v
		}
		sc.Evaluations = append(sc.Evaluations, Evaluation{AfterCommit: len(sc.Commits) - 1, Fork: fork.clone(), Head: head.clone(), Origin: o})
	}
	return sc
}

const c20Config = `ci {
  baseBranch = "main"
}
%s
checks {
  disabled = ["alerts/annotation", "alerts/comparison", "alerts/for", "alerts/template", "promql/aggregate", "promql/fragile", "promql/impossible", "promql/regexp", "promql/syntax", "rule/for", "rule/name", "rule/reject", "rule/link", "rule/label"]
}
`

// selects: does expr select the metric / alert produced by the removed rule? (independent of pint's own walk)
func selects(expr string, removed Rule) bool {
	node, err := promParser.ParseExpr(expr)
	if err != nil {
		return false
	}
	found := false
	promParser.Inspect(node, func(n promParser.Node, _ []promParser.Node) error {
		vs, ok := n.(*promParser.VectorSelector)
		if !ok {
			return nil
		}
		if removed.Kind == "record" {
			if vs.Name == removed.Name {
				found = true
			}
			return nil
		}
		if vs.Name != "ALERTS" && vs.Name != "ALERTS_FOR_STATE" {
			return nil
		}
		for _, m := range vs.LabelMatchers {
			if m.Name == "alertname" && m.Type == labels.MatchEqual && m.Value == removed.Name {
				found = true
			}
		}
		return nil
	})
	return found
}

var depLineRe = regexp.MustCompile("- `([^`]+)` at `([^`:]+):(\\d+)`")

func TestC20(t *testing.T) {
	detsim.Main(t, detsim.Prop[C20Scenario]{ID: "C20", Draw: drawC20, Run: runC20})
}

func runC20(t *testing.T, sc C20Scenario, record bool) *detsim.Outcome {
	out := &detsim.Outcome{Probes: map[string]int{}, Faults: map[string]int{}}
	pint := pintBinary(t)
	repo, err := NewRepo()
	if err != nil {
		t.Fatal(err)
	}
	defer repo.Close()
	cfgDir, err := os.MkdirTemp("", "verif-ci-cfg-")
	if err != nil {
		t.Fatal(err)
	}
	defer os.RemoveAll(cfgDir)
	cfg := filepath.Join(cfgDir, "pint.hcl")
	relaxed := "parser {\n  relaxed = [\".*\"]\n}"
	if sc.Strict {
		relaxed = ""
	}
	if sc.Mixed {
		relaxed = "parser {\n  relaxed = [\"relaxed/.*\"]\n}"
	}
	if err := os.WriteFile(cfg, []byte(fmt.Sprintf(c20Config, relaxed)), 0o644); err != nil {
		t.Fatal(err)
	}
	must := func(err error) {
		if err != nil {
			t.Fatalf("simulated repository: %v", err)
		}
	}
	must(repo.WriteTree(sc.Init))
	must(repo.CommitAll("initial"))
	repo.Branch = sc.Branch
	_, err = repo.Git("checkout", "-q", "-b", repo.branch())
	must(err)
	digest := fnv.New64a()
	merged := false
	for ci, c := range sc.Commits {
		if err := repo.Apply(c); err != nil {
			out.Probes["history_rejected_by_git"]++
			out.Summary = err.Error()
			return out
		}
		ev := &sc.Evaluations[ci]
		if c.Actor == "base" {
			out.Probes["commit_on_base_branch"]++
			continue // nothing to judge: the branch under review did not move
		}
		if c.Actor == "merge" {
			merged = true
			out.Probes["commit_merge"]++
		}
		if merged {
			mb, err := repo.Git("merge-base", "main", "HEAD")
			must(err)
			ft, ok1 := repo.ReadTree(strings.TrimSpace(mb))
			ht, ok2 := repo.ReadTree("HEAD")
			if !ok1 || !ok2 {
				out.Probes["merge_result_not_in_model_shape"]++
				return out
			}
			evCopy := *ev
			evCopy.Fork, evCopy.Head = ft, ht
			o := map[string]string{}
			for hp := range ht {
				if op, ok := ev.Origin[hp]; ok {
					o[hp] = op
				} else if _, inBase := ft[hp]; inBase {
					o[hp] = hp
				} else {
					o[hp] = ""
				}
			}
			evCopy.Origin = o
			ev = &evCopy
			out.Probes["evaluation_after_merge"]++
		}
		reps, _, err := repo.RunPintCI(pint, cfg)
		out.Sched.Decisions++
		if err != nil {
			out.AddViolation("pint-ci-failed", fmt.Sprintf("after commit %d (%s): %v", ci, c.Msg, err))
			return out
		}
		anyBroken := false
		for p, f := range ev.Head {
			if sc.unparsable(p, f) {
				anyBroken = true
			}
		}
		// reports by (path, first line of the removed rule in the fork version)
		type key struct {
			path string
			line int
		}
		got := map[key][]JSONReport{}
		for _, r := range reps {
			if r.Reporter != "rule/dependency" || len(r.Lines) == 0 {
				continue
			}
			got[key{r.Path, r.Lines[0]}] = append(got[key{r.Path, r.Lines[0]}], r)
			if r.Severity != "Warning" {
				out.AddViolation("wrong-severity", fmt.Sprintf("after commit %d: rule/dependency reported as %s at %s:%d", ci, r.Severity, r.Path, r.Lines[0]))
			}
		}
		// where did every fork file end up?
		headOf := map[string]string{}
		for hp, op := range ev.Origin {
			if op != "" {
				headOf[op] = hp
			}
		}
		for _, fp := range sortedKeys(ev.Fork) {
			ff := ev.Fork[fp]
			_, fspans := ff.Render()
			hp, alive := headOf[fp]
			var hf *File
			if alive {
				hf = ev.Head[hp]
			}
			for i, r := range ff.Rules {
				// removed from its file (lineage)?
				if hf != nil {
					still := false
					for _, h := range hf.Rules {
						if h.Kind == r.Kind && h.Name == r.Name {
							still = true
						}
					}
					if still {
						continue
					}
				}
				out.Probes["rule_removed"]++
				k := key{fp, fspans[i].First}
				who := fmt.Sprintf("after commit %d (%s): removed %s rule `%s` (%s:%d at the fork point)", ci, c.Msg, r.Kind, r.Name, fp, fspans[i].First)
				// dependants and replacements among what remains at HEAD
				type dep struct {
					name, path string
					line       int
				}
				// rules of a file that no longer parses may or may not count as remaining: compute both readings
				compute := func(includeBroken bool) (deps []dep, replaced bool) {
					for _, p := range sortedKeys(ev.Head) {
						f := ev.Head[p]
						if sc.unparsable(p, f) && !includeBroken {
							continue
						}
						_, spans := f.Render()
						for j, h := range f.Rules {
							if h.Kind == r.Kind && h.Name == r.Name {
								replaced = true
							}
							if selects(h.Expr, r) {
								deps = append(deps, dep{h.Name, p, spans[j].ExprLine})
							}
						}
					}
					return deps, replaced
				}
				deps, replaced := compute(true)
				depsNB, replacedNB := compute(false)
				ambiguous := anyBroken && ((len(deps) > 0 && !replaced) != (len(depsNB) > 0 && !replacedNB) || len(deps) != len(depsNB))
				rs := got[k]
				delete(got, k)
				fmt.Fprintf(digest, "%d|%s|%d|%d;", ci, fp, i, len(rs))
				if hf != nil && sc.unparsable(hp, hf) {
					// the file the rule used to live in no longer parses: whether its rules count as removed is not
					// something the property settles - only demand that nothing is reported without a dependant
					out.Probes["removed_from_broken_file"]++
					if len(rs) > 0 && len(deps) == 0 {
						out.AddViolation("warning-without-dependants", fmt.Sprintf("%s: reported although nothing at HEAD depends on it", who))
					}
					continue
				}
				if ambiguous {
					out.Probes["skipped_depends_on_broken_file"]++
					continue
				}
				expectWarn := len(deps) > 0 && !replaced
				switch {
				case expectWarn && len(rs) == 0:
					out.AddViolation("missing-dependency-warning", fmt.Sprintf("%s: %d remaining rule(s) depend on it (%v) and no rule of the same kind and name replaces it, but no rule/dependency warning was reported", who, len(deps), deps))
				case !expectWarn && len(rs) > 0:
					why := "nothing at HEAD depends on it"
					if replaced {
						why = "a rule of the same kind and name remains at HEAD"
					}
					out.AddViolation("spurious-dependency-warning", fmt.Sprintf("%s: %s, yet rule/dependency was reported: %s", who, why, clipS(rs[0].Details, 300)))
				case expectWarn:
					out.Probes["warning_expected_and_reported"]++
					out.Nontrivial = true
					if len(rs) != 1 {
						out.AddViolation("duplicate-dependency-warning", fmt.Sprintf("%s: %d warnings", who, len(rs)))
					}
					var listed []string
					for _, m := range depLineRe.FindAllStringSubmatch(rs[0].Details, -1) {
						listed = append(listed, fmt.Sprintf("%s@%s:%s", m[1], m[2], m[3]))
					}
					var want []string
					seen := map[string]bool{}
					for _, d := range deps {
						s := fmt.Sprintf("%s@%s:%d", d.name, d.path, d.line)
						if !seen[s] {
							seen[s] = true
							want = append(want, s)
						}
					}
					sort.Strings(listed)
					sort.Strings(want)
					if strings.Join(listed, ",") != strings.Join(want, ",") {
						out.AddViolation("wrong-dependants-list", fmt.Sprintf("%s: warning lists %v, the rules that select it at HEAD are %v", who, listed, want))
					}
				default:
					if replaced && len(deps) > 0 {
						out.Probes["replacement_suppressed_warning"]++
					} else {
						out.Probes["removed_without_dependants"]++
					}
				}
			}
		}
		for k, rs := range got {
			out.AddViolation("warning-on-rule-not-removed", fmt.Sprintf("after commit %d (%s): rule/dependency reported at %s:%d, where no rule was removed: %s", ci, c.Msg, k.path, k.line, clipS(rs[0].Details, 300)))
		}
		out.Probes["evaluations"]++
	}
	out.Digest = digest.Sum64()
	out.Sched.Trace = digest.Sum64()
	out.Summary = map[string]any{"commits": len(sc.Commits), "files": len(sc.Init)}
	return out
}

func clipS(s string, n int) string {
	if len(s) <= n {
		return s
	}
	return s[:n] + "..."
}
