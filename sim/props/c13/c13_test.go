// C13: slicing a range query is invisible in its result.
package c13

import (
	"os"
	"context"
	"fmt"
	"hash/fnv"
	"io"
	"log/slog"
	"sort"
	"strconv"
	"strings"
	"sync"
	"testing"
	"time"

	"github.com/prometheus/client_golang/prometheus"
	"github.com/prometheus/prometheus/model/labels"
	"pgregory.net/rapid"

	"github.com/cloudflare/pint/internal/promapi"
	"github.com/cloudflare/pint/internal/verifhook"
	"github.com/cloudflare/pint/verifsim/detsim"
	"github.com/cloudflare/pint/verifsim/simnet"
	"github.com/cloudflare/pint/verifsim/simprom"
)

// Interval of presence, in seconds relative to the query end (negative = before the end).
type Interval struct {
	From int64 `json:"from"`
	To   int64 `json:"to"`
}

type SliceFault struct {
	Ord  int    `json:"ord"` // n-th slice request to reach the server
	Mode string `json:"mode"`
}

type Scenario struct {
	Scheds      []detsim.SchedConfig `json:"scheds"` // the same workload is run once per schedule and the results compared
	Concurrency int                  `json:"concurrency"`
	StepS       int64                `json:"step_s"`
	LookbackS   int64                `json:"lookback_s"`
	EndOffsetNs int64                `json:"end_offset_ns"` // query end = 2000-01-03T00:00:00Z + offset (ns precision)
	Series      [][]Interval         `json:"series"`
	Fault       *SliceFault          `json:"fault,omitempty"`
	// SecondStepS: after the first query the same expression is asked again over the same
	// range with another step, on the same failover group (shared cache); 0 = no second query
	SecondStepS int64 `json:"second_step_s,omitempty"`
	// ExtraLabels[i]: series i carries an additional label (its name differs per series), so
	// the series of one response do not all have the same label names
	ExtraLabels []bool `json:"extra_labels,omitempty"`
	// TwinLookbackS: once the cache holds the slices of the main query, the main query and a second one
	// over another window of the same expression (same end, same step) are asked at the same time by two
	// callers; each must get what it gets when asked alone. 0 = no such phase
	TwinLookbackS int64 `json:"twin_lookback_s,omitempty"`
	// LaterS: the main query is asked again that many (whole) seconds later - same lookback, so every
	// time moves by that much - while the cache still holds the first answer's slices (watch mode, or two
	// checks of one run a moment apart); it must get what it gets when asked at that moment on a cold cache
	LaterS int64 `json:"later_s,omitempty"`
}

var steps = []int64{10, 15, 30, 60, 60, 300, 300, 300, 420, 660, 900, 1800, 2700, 3600, 5400, 7200, 9000, 10800, 14400, 14460, 18000, 21600}

func draw(rt *rapid.T) Scenario {
	var sc Scenario
	n := rapid.IntRange(1, detsim.Scale(3, 5)).Draw(rt, "nscheds")
	for i := 0; i < n; i++ {
		sc.Scheds = append(sc.Scheds, detsim.DrawSched(rt, 400))
	}
	sc.Concurrency = []int{1, 2, 3, 4, 8, 16}[rapid.IntRange(0, 5).Draw(rt, "conc")]
	sc.StepS = steps[rapid.IntRange(0, len(steps)-1).Draw(rt, "step")]
	// lookback: a few steps up to ~2 days, bounded so that a run stays around 10^4 samples
	maxLb := int64(48 * 3600)
	if sc.StepS < 60 {
		maxLb = 6 * 3600
	}
	if sc.StepS >= 3600 {
		maxLb = 8 * 24 * 3600
	}
	switch rapid.IntRange(0, 3).Draw(rt, "lbkind") {
	case 0:
		sc.LookbackS = sc.StepS * rapid.Int64Range(1, 40).Draw(rt, "lbsteps")
	case 1:
		sc.LookbackS = 7200 * rapid.Int64Range(1, maxLb/7200).Draw(rt, "lb2h")
	default:
		sc.LookbackS = rapid.Int64Range(sc.StepS, maxLb).Draw(rt, "lb")
	}
	if sc.LookbackS > maxLb {
		sc.LookbackS = maxLb
	}
	switch rapid.IntRange(0, 4).Draw(rt, "endkind") {
	case 0: // exactly on a 2h boundary
		sc.EndOffsetNs = 7200 * int64(time.Second) * rapid.Int64Range(0, 12).Draw(rt, "e2h")
	case 1: // just before / after a 2h boundary
		sc.EndOffsetNs = 7200*int64(time.Second)*rapid.Int64Range(1, 12).Draw(rt, "e2h") + rapid.Int64Range(-2000000000, 2000000000).Draw(rt, "eps")
	default:
		sc.EndOffsetNs = rapid.Int64Range(0, 24*3600*int64(time.Second)).Draw(rt, "eoff")
	}
	ns := rapid.IntRange(1, 4).Draw(rt, "nseries")
	span := sc.LookbackS + 3*7200
	for s := 0; s < ns; s++ {
		ivs := []Interval{}
		switch rapid.IntRange(0, 5).Draw(rt, "shape") {
		case 0: // present throughout
			ivs = append(ivs, Interval{-span, 0})
		case 1: // present throughout with single-sample holes
			cur := -span
			k := rapid.IntRange(1, 4).Draw(rt, "holes")
			for i := 0; i < k; i++ {
				hole := -rapid.Int64Range(0, span).Draw(rt, "hole")
				if hole-1 > cur {
					ivs = append(ivs, Interval{cur, hole - 1})
				}
				cur = hole + rapid.Int64Range(1, sc.StepS).Draw(rt, "holeLen")
			}
			if cur < 0 {
				ivs = append(ivs, Interval{cur, 0})
			}
		case 2: // islands (some shorter than a step)
			k := rapid.IntRange(1, 5).Draw(rt, "islands")
			for i := 0; i < k; i++ {
				a := -rapid.Int64Range(0, span).Draw(rt, "ia")
				l := rapid.Int64Range(0, 3*sc.StepS).Draw(rt, "il")
				ivs = append(ivs, Interval{a, a + l})
			}
		case 3: // edges on 2h boundaries of the absolute timeline
			k := rapid.IntRange(1, 3).Draw(rt, "edges")
			endAbs := sc.EndOffsetNs / int64(time.Second)
			for i := 0; i < k; i++ {
				b := (endAbs/7200 - rapid.Int64Range(0, span/7200).Draw(rt, "b")) * 7200
				a := b - endAbs + rapid.Int64Range(-1, 1).Draw(rt, "jit")*rapid.Int64Range(0, sc.StepS).Draw(rt, "j2")
				l := rapid.Int64Range(0, 3*7200).Draw(rt, "el")
				if rapid.Bool().Draw(rt, "endsAt") {
					ivs = append(ivs, Interval{a - l, a})
				} else {
					ivs = append(ivs, Interval{a, a + l})
				}
			}
		default: // arbitrary intervals
			k := rapid.IntRange(0, 6).Draw(rt, "nivs")
			for i := 0; i < k; i++ {
				a := -rapid.Int64Range(0, span).Draw(rt, "a")
				l := rapid.Int64Range(0, span/2).Draw(rt, "l")
				ivs = append(ivs, Interval{a, a + l})
			}
		}
		sc.Series = append(sc.Series, ivs)
	}
	for range sc.Series {
		sc.ExtraLabels = append(sc.ExtraLabels, rapid.Bool().Draw(rt, "extralabel"))
	}
	if rapid.IntRange(0, 3).Draw(rt, "second") == 0 {
		sc.SecondStepS = steps[rapid.IntRange(0, len(steps)-1).Draw(rt, "step2")]
		if sc.SecondStepS == sc.StepS || sc.LookbackS/sc.SecondStepS > 4000 {
			sc.SecondStepS = 0
		}
	}
	if rapid.IntRange(0, 3).Draw(rt, "twin") == 0 {
		switch rapid.IntRange(0, 2).Draw(rt, "twinkind") {
		case 0: // whole slices more or fewer
			sc.TwinLookbackS = sc.LookbackS + 7200*int64(rapid.IntRange(-3, 3).Draw(rt, "twin2h"))
		case 1:
			sc.TwinLookbackS = sc.LookbackS + sc.StepS*int64(rapid.IntRange(-30, 30).Draw(rt, "twinsteps"))
		default:
			sc.TwinLookbackS = rapid.Int64Range(sc.StepS, 2*sc.LookbackS+sc.StepS).Draw(rt, "twinlb")
		}
		if sc.TwinLookbackS < sc.StepS || sc.TwinLookbackS == sc.LookbackS || sc.TwinLookbackS/sc.StepS > 4000 {
			sc.TwinLookbackS = 0
		}
		if sc.TwinLookbackS > 0 && rapid.IntRange(0, 3).Draw(rt, "twinwholesec") > 0 {
			sc.EndOffsetNs -= sc.EndOffsetNs % int64(time.Second) // see run(): windows are compared on whole-second ends only
		}
	}
	if rapid.IntRange(0, 3).Draw(rt, "later") == 0 {
		switch rapid.IntRange(0, 2).Draw(rt, "laterkind") {
		case 0:
			sc.LaterS = rapid.Int64Range(1, 2*sc.StepS).Draw(rt, "laterS")
		case 1: // around half a step and a whole step
			sc.LaterS = sc.StepS/2 + rapid.Int64Range(-2, 2).Draw(rt, "laterJ")
		default:
			sc.LaterS = sc.StepS + rapid.Int64Range(-2, 2).Draw(rt, "laterJ")
		}
		if sc.LaterS < 1 {
			sc.LaterS = 1
		}
	}
	if rapid.IntRange(0, 9).Draw(rt, "faulty") < 2 {
		modes := []string{simprom.ModeHTTP500, simprom.ModeStall, simprom.ModeTruncated, simprom.ModeBadData, simprom.ModeReset, simprom.ModeJSONServerErr, simprom.ModeJSONCanceled, simprom.ModeTruncClean}
		sc.Fault = &SliceFault{Ord: rapid.IntRange(0, 30).Draw(rt, "ford"), Mode: modes[rapid.IntRange(0, len(modes)-1).Draw(rt, "fmode")]}
	}
	return sc
}

type absRange struct {
	start, end time.Time
	step       time.Duration
}

func (r absRange) Start() time.Time    { return r.start }
func (r absRange) End() time.Time      { return r.end }
func (r absRange) Dur() time.Duration  { return r.end.Sub(r.start) }
func (r absRange) Step() time.Duration { return r.step }
func (r absRange) String() string {
	return fmt.Sprintf("%d/%d/%s", r.start.UnixNano(), r.end.UnixNano(), r.step)
}

var base = time.Date(2000, 1, 3, 0, 0, 0, 0, time.UTC)

func present(ivs []Interval, endAbsNs int64, tMs int64) bool {
	// t (ms, absolute) is present iff it lies inside an interval (seconds relative to the end)
	for _, iv := range ivs {
		a := endAbsNs + iv.From*int64(time.Second)
		b := endAbsNs + iv.To*int64(time.Second)
		if tMs*int64(time.Millisecond) >= a && tMs*int64(time.Millisecond) <= b {
			return true
		}
	}
	return false
}

// presenceBackend answers query_range from the presence model, on the grid of the request.
type presenceBackend struct {
	sc       *Scenario
	endAbsNs int64
	mu       sync.Mutex
	grids    map[int64]struct{} // request start mod step (ms) - all slices must share one grid
	starts   []int64            // request starts (ms)
	ends     []int64
}

func parseTimeMs(s string) int64 {
	f, err := strconv.ParseFloat(s, 64)
	if err != nil {
		panic("bad time " + s)
	}
	// Prometheus parses to milliseconds
	return int64(f*1000 + 0.5*sign(f))
}

func sign(f float64) float64 {
	if f < 0 {
		return -1
	}
	return 1
}

func (b *presenceBackend) Answer(req *simprom.Request, serial int) (int, string) {
	if req.Endpoint != promapi.APIPathQueryRange {
		return 404, `{"status":"error","errorType":"bad_data","error":"unexpected endpoint"}`
	}
	start := parseTimeMs(req.Form.Get("start"))
	end := parseTimeMs(req.Form.Get("end"))
	stepF, _ := strconv.ParseFloat(req.Form.Get("step"), 64)
	step := int64(stepF * 1000)
	if step <= 0 || end < start {
		return 400, `{"status":"error","errorType":"bad_data","error":"bad range"}`
	}
	if os.Getenv("VERIF_DEBUG") != "" {
		fmt.Printf("DEBUG request start=%s end=%s step=%s (%s .. %s)\n", req.Form.Get("start"), req.Form.Get("end"), req.Form.Get("step"), time.UnixMilli(start).UTC().Format(time.RFC3339Nano), time.UnixMilli(end).UTC().Format(time.RFC3339Nano))
	}
	b.mu.Lock()
	b.grids[((start%step)+step)%step] = struct{}{}
	b.starts = append(b.starts, start)
	b.ends = append(b.ends, end)
	b.mu.Unlock()
	var sb strings.Builder
	sb.WriteString(`{"status":"success","data":{"resultType":"matrix","result":[`)
	first := true
	for si, ivs := range b.sc.Series {
		var vals []string
		for t := start; t <= end; t += step {
			if present(ivs, b.endAbsNs, t) {
				vals = append(vals, fmt.Sprintf(`[%d.%03d,"1"]`, t/1000, t%1000))
			}
		}
		if len(vals) == 0 {
			continue
		}
		if !first {
			sb.WriteString(",")
		}
		first = false
		fmt.Fprintf(&sb, `{"metric":%s,"values":[%s]}`, seriesLabelsJSON(b.sc, si), strings.Join(vals, ","))
	}
	sb.WriteString(`]}}`)
	return 200, sb.String()
}

// seriesLabels is the label set of model series si.
func seriesLabels(sc *Scenario, si int) map[string]string {
	m := map[string]string{"__name__": "m", "s": strconv.Itoa(si)}
	if si < len(sc.ExtraLabels) && sc.ExtraLabels[si] {
		m[fmt.Sprintf("extra%d", si%2)] = "x"
		m["instance"] = "i1"
	}
	return m
}

func seriesLabelsJSON(sc *Scenario, si int) string {
	m := seriesLabels(sc, si)
	keys := make([]string, 0, len(m))
	for k := range m {
		keys = append(keys, k)
	}
	sort.Strings(keys)
	parts := []string{}
	for _, k := range keys {
		parts = append(parts, fmt.Sprintf("%q:%q", k, m[k]))
	}
	return "{" + strings.Join(parts, ",") + "}"
}

func init() {
	simnet.InstallGlobalDialer()
	slog.SetDefault(slog.New(slog.NewTextHandler(io.Discard, nil)))
}

func TestC13(t *testing.T) {
	detsim.Main(t, detsim.Prop[Scenario]{ID: "C13", Draw: draw, Run: run})
}

type oneResult struct {
	ranges   promapi.MetricTimeRanges
	err      error
	firstErr error // error of the attempt that met the injected fault (the result above is then the retry's)
	retried  bool
	firstReq int64 // ms, smallest slice start as the server parsed it
	lastEnd  int64 // ms, largest slice end as the server parsed it
	step     int64
	grids    int
	stats    detsim.SchedStats
	simNs    int64
	leak     string
	live     bool
	slices   int
	faults   map[string]int
	order    string // arrival order of slice responses
	twin     promapi.MetricTimeRanges
	twinErr  error
}

// runOnce: lookbackS is the window of the query whose result is returned in ranges; with twinS > 0 the cache is
// first filled by that query, then it and a query over twinS are asked again concurrently by two callers.
func runOnce(t *testing.T, sc *Scenario, sched detsim.SchedConfig, record bool, stepS, warmStepS, lookbackS, twinS int64, shifts ...int64) oneResult {
	// shifts[0]: the queries end that many seconds after the scenario's end; shifts[1]: instead of a concurrent
	// second window, the same window is asked again that many seconds later (sequentially, warm cache)
	var endShiftS, laterS int64
	if len(shifts) > 0 {
		endShiftS = shifts[0]
	}
	if len(shifts) > 1 {
		laterS = shifts[1]
	}
	var res oneResult
	res.live = true
	endAbs := base.Add(time.Duration(sc.EndOffsetNs))
	be := &presenceBackend{sc: sc, endAbsNs: endAbs.UnixNano(), grids: map[int64]struct{}{}}
	mkRangeAt := func(lb, st, shift int64) absRange {
		e := endAbs.Add(time.Duration(shift) * time.Second)
		return absRange{start: e.Add(-time.Duration(lb) * time.Second), end: e, step: time.Duration(st) * time.Second}
	}
	mkRange := func(lb int64, st int64) absRange { return mkRangeAt(lb, st, endShiftS) }
	res.leak = detsim.Bubble(t, func() {
		s := detsim.NewSched(sched, record, detsim.States)
		verifhook.Yield = s.HookYield
		verifhook.LockerWrap = s.WrapLocker
		defer func() { verifhook.Yield = nil; verifhook.LockerWrap = nil }()
		nw := simnet.New()
		simnet.Use(nw)
		t0 := time.Now()
		srv := simprom.NewServer(0, "prom0:9090", s, be)
		var omu sync.Mutex
		var order []string
		srv.FaultFn = func(req *simprom.Request) simprom.Fault {
			if sc.Fault != nil && req.Ord == sc.Fault.Ord {
				return simprom.Fault{Mode: sc.Fault.Mode}
			}
			omu.Lock()
			order = append(order, req.Form.Get("start"))
			omu.Unlock()
			return simprom.Fault{Mode: simprom.ModeOK}
		}
		srv.Start(nw, nil)
		prom := promapi.NewPrometheus("sim", "http://prom0:9090", "", nil, 30*time.Second, sc.Concurrency, 2000000000, nil)
		fg := promapi.NewFailoverGroup("sim", "http://prom0:9090", []*promapi.Prometheus{prom}, true, "up", nil, nil, nil)
		reg := prometheus.NewRegistry()
		s.Start()
		fg.StartWorkers(reg)
		done := make(chan struct{})
		go func() {
			defer close(done)
			s.Name("caller")
			s.Yield("start", "caller")
			if warmStepS > 0 {
				// an earlier query for the same expression and range with another step fills the shared cache
				_, _ = fg.RangeQuery(context.Background(), "m", mkRange(lookbackS, warmStepS))
				be.mu.Lock()
				be.grids, be.starts, be.ends = map[int64]struct{}{}, nil, nil
				be.mu.Unlock()
			}
			rr, err := fg.RangeQuery(context.Background(), "m", mkRange(lookbackS, stepS))
			res.err = err
			if rr != nil {
				res.ranges = rr.Series.Ranges
			}
			if laterS > 0 && err == nil {
				// the cache is warm now: the same window, a moment later
				time.Sleep(time.Duration(laterS) * time.Second)
				rl, errl := fg.RangeQuery(context.Background(), "m", mkRangeAt(lookbackS, stepS, endShiftS+laterS))
				res.twinErr = errl
				if rl != nil {
					res.twin = rl.Series.Ranges
				}
			}
			if twinS > 0 && err == nil {
				// the cache is warm now: both windows at once
				var wg sync.WaitGroup
				wg.Add(2)
				go func() {
					defer wg.Done()
					s.Name("twinA")
					s.Yield("start", "twinA")
					ra, erra := fg.RangeQuery(context.Background(), "m", mkRange(lookbackS, stepS))
					res.err = erra
					res.ranges = nil
					if ra != nil {
						res.ranges = ra.Series.Ranges
					}
				}()
				go func() {
					defer wg.Done()
					s.Name("twinB")
					s.Yield("start", "twinB")
					rb, errb := fg.RangeQuery(context.Background(), "m", mkRange(twinS, stepS))
					res.twinErr = errb
					if rb != nil {
						res.twin = rb.Series.Ranges
					}
				}()
				wg.Wait()
			}
			if sc.Fault != nil && err != nil {
				// the fault is gone (it hit one request ordinal): asking again must give the whole
				// answer - nothing half-done may have been kept from the failed attempt
				res.firstErr = err
				res.retried = true
				rr, err = fg.RangeQuery(context.Background(), "m", mkRange(lookbackS, stepS))
				res.err = err
				res.ranges = nil
				if rr != nil {
					res.ranges = rr.Series.Ranges
				}
			}
		}()
		select {
		case <-done:
		case <-time.After(2*time.Hour + time.Duration(laterS)*time.Second):
			res.live = false
		}
		res.simNs = int64(time.Since(t0))
		s.Stop()
		res.stats = s.Stats()
		if res.live {
			fg.Close(reg)
		}
		srv.Close()
		nw.Close()
		res.faults = srv.FaultCounts()
		omu.Lock() // a handler of an abandoned (cancelled) request may still be running in free mode
		res.order = strings.Join(order, ",")
		omu.Unlock()
	})
	res.grids = len(be.grids)
	res.slices = len(be.starts)
	res.step = stepS * 1000
	if len(be.starts) > 0 {
		res.firstReq = be.starts[0]
		for _, v := range be.starts {
			if v < res.firstReq {
				res.firstReq = v
			}
		}
		for _, v := range be.ends {
			if v > res.lastEnd {
				res.lastEnd = v
			}
		}
	}
	return res
}

func run(t *testing.T, sc Scenario, record bool) *detsim.Outcome {
	out := &detsim.Outcome{Probes: map[string]int{}, Faults: map[string]int{}}
	endAbs := base.Add(time.Duration(sc.EndOffsetNs))
	digest := fnv.New64a()
	var firstStr string
	var firstOrder string
	trace := uint64(0)
	type planned struct {
		sched       detsim.SchedConfig
		step, warm  int64
		compareWith int // index of the run whose result must be identical (-1: none)
	}
	var plan []planned
	for i, sched := range sc.Scheds {
		cw := -1
		if i > 0 {
			cw = 0
		}
		plan = append(plan, planned{sched, sc.StepS, 0, cw})
	}
	if sc.SecondStepS > 0 && sc.Fault == nil {
		plan = append(plan, planned{sc.Scheds[0], sc.SecondStepS, sc.StepS, -1})
	}
	for i, pl := range plan {
		sched := pl.sched
		r := runOnce(t, &sc, sched, record && i == 0, pl.step, pl.warm, sc.LookbackS, 0)
		if pl.warm > 0 {
			out.Probes["second_query_other_step"]++
		}
		out.Sched.Decisions += r.stats.Decisions
		trace = trace*1099511628211 ^ r.stats.Trace
		out.Sched.Log = append(out.Sched.Log, r.stats.Log...)
		out.SimNanos += r.simNs
		for k, v := range r.faults {
			out.Faults[k] += v
		}
		who := fmt.Sprintf("schedule %d (step=%ds after a query with step=%ds, lookback=%ds end=%s concurrency=%d, %d slices)", i, pl.step, pl.warm, sc.LookbackS, endAbs.Format(time.RFC3339Nano), sc.Concurrency, r.slices)
		if !r.live {
			out.AddViolation("liveness", who+": RangeQuery did not return within 2h of simulated time (leak: "+r.leak+")")
			continue
		}
		if r.leak != "" {
			out.AddViolation("goroutine-leak", who+": "+r.leak)
		}
		if sc.Fault != nil {
			fired := 0
			for _, v := range r.faults {
				fired += v
			}
			if fired > 0 {
				// narrow relaxation: one slice failed, so the query may fail - it may not invent a hole
				out.Probes["slice_fault_fired"]++
				if !r.retried {
					out.AddViolation("partial-result-without-error", fmt.Sprintf("%s: slice request #%d failed (%s) and RangeQuery still returned a result", who, sc.Fault.Ord, sc.Fault.Mode))
					continue
				}
				out.Probes["retried_after_fault"]++
				who += " [second attempt after the injected " + sc.Fault.Mode + "]"
			}
		}
		if r.err != nil {
			out.AddViolation("unexpected-error", who+": "+r.err.Error())
			continue
		}
		if r.slices > 1 {
			out.Probes["sliced"]++
		}
		if r.grids > 1 {
			// slices evaluated on different grids could not be compared with one unsliced evaluation at all
			out.AddViolation("slices-on-different-grids", fmt.Sprintf("%s: slice starts fall on %d different step grids", who, r.grids))
			continue
		}
		// reference: one unsliced evaluation of the presence model on the grid anchored at the first slice's start
		sort.Stable(r.ranges)
		str := r.ranges.String()
		fmt.Fprintf(digest, "%s|", str)
		bySeries := map[string]promapi.MetricTimeRanges{}
		for _, mr := range r.ranges {
			bySeries[mr.Labels.Get("s")] = append(bySeries[mr.Labels.Get("s")], mr)
			// every returned range must carry exactly the labels of its series
			si, _ := strconv.Atoi(mr.Labels.Get("s"))
			want := seriesLabels(&sc, si)
			got := map[string]string{}
			mr.Labels.Range(func(l labels.Label) { got[l.Name] = l.Value })
			if fmt.Sprint(want) != fmt.Sprint(got) {
				out.AddViolation("wrong-labels", fmt.Sprintf("%s: a range of series %d is reported with labels %v, the server sent %v", who, si, got, want))
			}
		}
		for si, ivs := range sc.Series {
			rs := bySeries[strconv.Itoa(si)]
			sort.Slice(rs, func(a, b int) bool { return rs[a].Start.Before(rs[b].Start) })
			for j := 1; j < len(rs); j++ {
				if !rs[j].Start.After(rs[j-1].End) {
					out.AddViolation("overlapping-ranges", fmt.Sprintf("%s series %d: %s", who, si, rs.String()))
				}
			}
			runs := 0
			prev := false
			for tt := r.firstReq; tt <= r.lastEnd; tt += r.step {
				p := present(ivs, endAbs.UnixNano(), tt)
				ts := time.UnixMilli(tt)
				cov := false
				for _, mr := range rs {
					if !mr.Start.After(ts) && !mr.End.Before(ts) {
						cov = true
						break
					}
				}
				if p && !cov {
					out.AddViolation("phantom-gap", fmt.Sprintf("%s series %d: the unsliced evaluation has a sample at %s, no returned range covers it: %s", who, si, ts.UTC().Format(time.RFC3339), rs.String()))
				}
				if !p && cov {
					out.AddViolation("lost-gap", fmt.Sprintf("%s series %d: the unsliced evaluation has no sample at %s, a returned range covers it: %s", who, si, ts.UTC().Format(time.RFC3339), rs.String()))
				}
				if p && !prev {
					runs++
				}
				if !p && prev {
					out.Probes["gap_in_series"]++
				}
				prev = p
			}
			if runs != len(rs) {
				out.AddViolation("range-count", fmt.Sprintf("%s series %d: the unsliced evaluation has %d maximal runs of consecutive samples, %d ranges returned: %s", who, si, runs, len(rs), rs.String()))
			}
			if runs > 0 && r.slices > 1 {
				out.Probes["series_across_slices"]++
			}
		}
		if firstStr == "" && i == 0 {
			firstStr = str
			firstOrder = r.order
		} else if pl.compareWith == 0 {
			if r.order != firstOrder {
				out.Probes["different_arrival_order"]++
				out.Nontrivial = true
			}
			if str != firstStr {
				out.AddViolation("order-dependent-result", fmt.Sprintf("%s: result differs from schedule 0 of the same workload:\n  %s\n  %s", who, firstStr, str))
			}
		}
	}
	if sc.TwinLookbackS > 0 && sc.EndOffsetNs%int64(time.Second) != 0 {
		// pint's cache identifies a range by its start to the second (successive checks ask for "now minus
		// lookback" a few milliseconds apart and are meant to share answers), so two windows whose slice starts
		// differ by a fraction of a second are the same question to it by design: not judged
		out.Probes["concurrent_windows_skipped_subsecond_end"]++
	} else if sc.TwinLookbackS > 0 && sc.Fault == nil && firstStr != "" && len(out.Violations) == 0 {
		// what the second window yields when it is asked alone, on a cold cache
		alone := runOnce(t, &sc, sc.Scheds[0], false, sc.StepS, 0, sc.TwinLookbackS, 0)
		both := runOnce(t, &sc, sc.Scheds[len(sc.Scheds)-1], false, sc.StepS, 0, sc.LookbackS, sc.TwinLookbackS)
		out.Sched.Decisions += alone.stats.Decisions + both.stats.Decisions
		trace = trace*1099511628211 ^ both.stats.Trace
		out.SimNanos += alone.simNs + both.simNs
		who := fmt.Sprintf("two callers at once on a warm cache (windows %ds and %ds, step=%ds, end=%s, concurrency=%d)", sc.LookbackS, sc.TwinLookbackS, sc.StepS, endAbs.Format(time.RFC3339Nano), sc.Concurrency)
		switch {
		case !alone.live || !both.live:
			out.AddViolation("liveness", who+": RangeQuery did not return (leak: "+alone.leak+both.leak+")")
		case alone.err != nil || both.err != nil || both.twinErr != nil:
			out.AddViolation("unexpected-error", fmt.Sprintf("%s: %v / %v / %v", who, alone.err, both.err, both.twinErr))
		default:
			out.Probes["concurrent_windows"]++
			sort.Stable(alone.ranges)
			sort.Stable(both.ranges)
			sort.Stable(both.twin)
			fmt.Fprintf(digest, "%s|%s|", both.ranges.String(), both.twin.String())
			if both.ranges.String() != firstStr {
				out.AddViolation("concurrent-result-differs", fmt.Sprintf("%s: the %ds window differs from what the same query returned alone:\n  alone: %s\n  now:   %s", who, sc.LookbackS, firstStr, both.ranges.String()))
			}
			if both.twin.String() != alone.ranges.String() {
				out.AddViolation("concurrent-result-differs", fmt.Sprintf("%s: the %ds window differs from what the same query returned alone:\n  alone: %s\n  now:   %s", who, sc.TwinLookbackS, alone.ranges.String(), both.twin.String()))
			}
		}
	}
	if sc.LaterS > 0 && sc.Fault == nil && firstStr != "" && len(out.Violations) == 0 && sc.EndOffsetNs%int64(time.Second) == 0 {
		// what the later query yields on a cold cache, and what it yields right after the first one
		alone := runOnce(t, &sc, sc.Scheds[0], false, sc.StepS, 0, sc.LookbackS, 0, sc.LaterS)
		both := runOnce(t, &sc, sc.Scheds[len(sc.Scheds)-1], false, sc.StepS, 0, sc.LookbackS, 0, 0, sc.LaterS)
		out.Sched.Decisions += alone.stats.Decisions + both.stats.Decisions
		trace = trace*1099511628211 ^ both.stats.Trace
		out.SimNanos += alone.simNs + both.simNs
		who := fmt.Sprintf("the same query again %ds later on a warm cache (lookback=%ds, step=%ds, first end=%s, concurrency=%d)", sc.LaterS, sc.LookbackS, sc.StepS, endAbs.Format(time.RFC3339Nano), sc.Concurrency)
		switch {
		case !alone.live || !both.live:
			out.AddViolation("liveness", who+": RangeQuery did not return (leak: "+alone.leak+both.leak+")")
		case alone.err != nil || both.err != nil || both.twinErr != nil:
			out.AddViolation("unexpected-error", fmt.Sprintf("%s: %v / %v / %v", who, alone.err, both.err, both.twinErr))
		default:
			out.Probes["asked_again_later"]++
			sort.Stable(alone.ranges)
			sort.Stable(both.twin)
			fmt.Fprintf(digest, "%s|", both.twin.String())
			if both.twin.String() != alone.ranges.String() {
				out.AddViolation("later-result-differs", fmt.Sprintf("%s: differs from what the same query returns at that moment on a cold cache:\n  cold: %s\n  warm: %s", who, alone.ranges.String(), both.twin.String()))
			}
		}
	}
	out.Sched.Trace = trace
	out.Digest = digest.Sum64()
	out.Summary = map[string]any{"step_s": sc.StepS, "lookback_s": sc.LookbackS, "series": len(sc.Series), "schedules": len(sc.Scheds)}
	if len(sc.Scheds) == 1 && out.Probes["sliced"] > 0 {
		out.Nontrivial = true
	}
	return out
}
