// C16: promql/series verdicts agree with what the server actually holds.
package c16

import (
	"context"
	"fmt"
	"hash/fnv"
	"io"
	"log/slog"
	"regexp"
	"sort"
	"strings"
	"sync"
	"testing"
	"time"

	"github.com/prometheus/client_golang/prometheus"
	"github.com/prometheus/common/model"
	"github.com/prometheus/prometheus/model/labels"
	promParser "github.com/prometheus/prometheus/promql/parser"
	"pgregory.net/rapid"

	"github.com/cloudflare/pint/internal/checks"
	"github.com/cloudflare/pint/internal/discovery"
	"github.com/cloudflare/pint/internal/parser"
	"github.com/cloudflare/pint/internal/promapi"
	"github.com/cloudflare/pint/internal/verifhook"
	"github.com/cloudflare/pint/verifsim/detsim"
	"github.com/cloudflare/pint/verifsim/simnet"
	"github.com/cloudflare/pint/verifsim/simprom"
)

const (
	shapePresent      = iota // samples throughout, up to now
	shapeNever               // no samples at all
	shapeOtherValues         // present throughout, but only with label values the rules do not ask for
	shapeDisappeared         // present until d ago
	shapeAppeared            // present since d ago
	shapeIntermittent        // on/off with period p
	shapeNoLabels            // present throughout without the labels the rules filter on
	shapeOldOnly             // samples only before the lookback window
)

var shapeNames = []string{"present", "never", "other-values", "disappeared", "appeared", "intermittent", "no-labels", "old-only"}

type MetricSpec struct {
	Shape  int   `json:"shape"`
	ParamS int64 `json:"param_s"` // d or p, seconds
	NSer   int   `json:"nser"`    // number of series (label combinations)
}

type RuleSpec struct {
	Record   string   `json:"record,omitempty"`
	Alert    string   `json:"alert,omitempty"`
	Expr     string   `json:"expr"`
	Comments []string `json:"comments,omitempty"`
}

type RoundSpec struct {
	GapS   int64 `json:"gap_s"`  // simulated time since the previous round ended
	Change []int `json:"change"` // per metric: 0 keep, 1 stops reporting, 2 starts / resumes reporting
}

type Scenario struct {
	Sched       detsim.SchedConfig `json:"sched"`
	Workers     int                `json:"workers"`
	Concurrency int                `json:"concurrency"`
	LookbackH   int                `json:"lookback_h"`
	StepM       int                `json:"step_m"`
	OffsetNs    int64              `json:"offset_ns"`
	Metrics     []MetricSpec       `json:"metrics"` // m0..m3
	UpGapS      [][2]int64         `json:"up_gaps,omitempty"`
	Rules       []RuleSpec         `json:"rules"`
	// Rounds after the first one: pint keeps running (watch mode), time passes, the
	// database only grows (Prometheus never back-fills), metrics stop or start.
	Rounds  []RoundSpec `json:"rounds,omitempty"`
	Replica bool        `json:"replica"`
	// OtherServers: further Prometheus servers known to pint (promql/series asks them whether a
	// missing metric exists elsewhere); they answer slowly, so the fallback time limit can strike
	OtherServers int        `json:"other_servers,omitempty"`
	OtherDelayS  int64      `json:"other_delay_s,omitempty"`
	// SlowMainS: every answer of the server under test takes this long (its timeout is then 15m): slow but
	// healthy - an answer may be minutes old by the time it is stored, it is still the answer of that moment
	SlowMainS int64 `json:"slow_main_s,omitempty"`
	FaultKind    string     `json:"fault_kind"` // "none", "failover" (primary unavailable, replica healthy), "chaos", "outage"
	Plan         [][]string `json:"plan,omitempty"`
	Rest         []string   `json:"rest,omitempty"`
}

var labelNames = []string{"job", "env"}
var labelValues = []string{"a", "b", "c"}

// longPad: in some scenarios every selector starts with the same long matcher that excludes nothing, so that
// different questions about one metric agree in their first ~150 characters (generated rules and alternations
// over many instances look like that)
var longPad bool

var padMatcher = `instance!~"` + strings.Repeat("excluded-host-", 10) + `[0-9]+"`

// selector vocabulary
func drawSelector(rt *rapid.T, nm int) string {
	m := rapid.IntRange(0, nm-1).Draw(rt, "metric")
	var ms []string
	if longPad {
		ms = append(ms, padMatcher)
	}
	n := rapid.IntRange(0, 2).Draw(rt, "nmatchers")
	used := map[string]bool{}
	for i := 0; i < n; i++ {
		l := labelNames[rapid.IntRange(0, len(labelNames)-1).Draw(rt, "label")]
		if used[l] {
			continue
		}
		used[l] = true
		v := labelValues[rapid.IntRange(0, len(labelValues)-1).Draw(rt, "value")]
		switch rapid.IntRange(0, 5).Draw(rt, "op") {
		case 0, 1, 2:
			ms = append(ms, fmt.Sprintf(`%s="%s"`, l, v))
		case 3:
			ms = append(ms, fmt.Sprintf(`%s!="%s"`, l, v))
		case 4:
			ms = append(ms, fmt.Sprintf(`%s=~"%s|z.*"`, l, v))
		default:
			ms = append(ms, fmt.Sprintf(`%s!~"%s"`, l, v))
		}
	}
	if len(ms) == 0 {
		return fmt.Sprintf("m%d", m)
	}
	return fmt.Sprintf("m%d{%s}", m, strings.Join(ms, ", "))
}

func drawExpr(rt *rapid.T, nm int) string {
	a := drawSelector(rt, nm)
	switch rapid.IntRange(0, 11).Draw(rt, "template") {
	case 0, 1:
		return a
	case 2:
		return fmt.Sprintf("rate(%s[5m])", a)
	case 3:
		return fmt.Sprintf("sum by (job) (%s)", a)
	case 4:
		return fmt.Sprintf("count(%s) > 0", a)
	case 5:
		return fmt.Sprintf("%s > 5", a)
	case 6:
		return fmt.Sprintf("%s / %s", a, drawSelector(rt, nm))
	case 7:
		return fmt.Sprintf("%s * on(job) group_left() %s", a, drawSelector(rt, nm))
	case 8:
		return fmt.Sprintf("%s or vector(0)", a)
	case 9:
		return fmt.Sprintf("%s or %s", a, drawSelector(rt, nm))
	case 10:
		return fmt.Sprintf("absent(%s)", a)
	default:
		return fmt.Sprintf("%s unless %s", a, drawSelector(rt, nm))
	}
}

// hasFallback: shapes pint documents as deliberately unchecked (clause (b) is not asserted there).
func hasFallback(expr string) bool {
	return strings.Contains(expr, " or ") || strings.Contains(expr, "absent(") || strings.Contains(expr, " unless ")
}

func draw(rt *rapid.T) Scenario {
	var sc Scenario
	sc.Sched = detsim.DrawSched(rt, 400)
	sc.Workers = rapid.IntRange(1, 4).Draw(rt, "workers")
	sc.Concurrency = []int{1, 2, 4, 16}[rapid.IntRange(0, 3).Draw(rt, "conc")]
	sc.LookbackH = []int{6, 12, 12, 24, 24, 24, 168}[rapid.IntRange(0, 6).Draw(rt, "lookback")]
	sc.StepM = []int{5, 5, 5, 10, 7}[rapid.IntRange(0, 4).Draw(rt, "step")]
	sc.OffsetNs = rapid.Int64Range(0, int64(2*time.Hour)).Draw(rt, "offset")
	nm := rapid.IntRange(1, 4).Draw(rt, "nmetrics")
	longPad = rapid.IntRange(0, 5).Draw(rt, "longpad") == 0
	window := int64(sc.LookbackH) * 3600
	for i := 0; i < nm; i++ {
		ms := MetricSpec{Shape: rapid.IntRange(0, 7).Draw(rt, "shape"), NSer: rapid.IntRange(1, 3).Draw(rt, "nser")}
		switch ms.Shape {
		case shapeDisappeared, shapeAppeared:
			ms.ParamS = rapid.Int64Range(1200, window-1800).Draw(rt, "d")
		case shapeIntermittent:
			ms.ParamS = rapid.Int64Range(1800, window/2).Draw(rt, "p")
		case shapeOldOnly:
			// how long before the window the last sample is: pint's slices start on 2h boundaries, so it may
			// or may not still see it ("disappeared" versus "never there" - a Bug either way)
			ms.ParamS = rapid.Int64Range(660, 3*3600).Draw(rt, "oldgap")
		}
		sc.Metrics = append(sc.Metrics, ms)
	}
	if rapid.IntRange(0, 3).Draw(rt, "upgap") == 0 {
		a := rapid.Int64Range(3600, window-3600).Draw(rt, "upgapAt")
		sc.UpGapS = append(sc.UpGapS, [2]int64{-a, -a + rapid.Int64Range(600, 3000).Draw(rt, "upgapLen")})
	}
	nr := rapid.IntRange(1, detsim.Scale(4, 6)).Draw(rt, "nrules")
	for i := 0; i < nr; i++ {
		r := RuleSpec{Expr: drawExpr(rt, nm)}
		if nm >= 2 && rapid.IntRange(0, 4).Draw(rt, "pair") == 0 {
			// two bare metrics in one expression without a fallback: what is found out about the
			// first must not decide what is said about the second
			a := rapid.IntRange(0, nm-1).Draw(rt, "pairA")
			b := (a + 1 + rapid.IntRange(0, nm-2).Draw(rt, "pairB")) % nm
			r.Expr = fmt.Sprintf([]string{"m%d / m%d", "m%d * on(job) group_left() m%d", "m%d - m%d > 0"}[rapid.IntRange(0, 2).Draw(rt, "pairT")], a, b)
			if longPad {
				r.Expr = strings.NewReplacer(fmt.Sprintf("m%d", a), fmt.Sprintf("m%d{%s}", a, padMatcher), fmt.Sprintf("m%d", b), fmt.Sprintf("m%d{%s}", b, padMatcher)).Replace(r.Expr)
			}
		}
		switch rapid.IntRange(0, 5).Draw(rt, "rkind") {
		case 0: // a recording rule that may well produce one of the queried metrics
			r.Record = fmt.Sprintf("m%d", rapid.IntRange(0, nm-1).Draw(rt, "recname"))
		case 1:
			r.Record = fmt.Sprintf("job:rec%d", i)
		case 2: // an alert that merely shares its name with a metric produces nothing
			r.Alert = fmt.Sprintf("m%d", rapid.IntRange(0, nm-1).Draw(rt, "alertname"))
		default:
			r.Alert = fmt.Sprintf("Alert%d", i)
		}
		if rapid.IntRange(0, 3).Draw(rt, "commented") == 0 {
			// an exemption for one metric - preferably one the expression really uses, so that the
			// selectors after it still have to be checked
			dm := rapid.IntRange(0, nm-1).Draw(rt, "dm")
			if m := regexp.MustCompile(`m(\d)`).FindStringSubmatch(r.Expr); m != nil && rapid.Bool().Draw(rt, "dmfirst") {
				dm = int(m[1][0] - '0')
			}
			if rapid.Bool().Draw(rt, "snoozed") {
				r.Comments = append(r.Comments, fmt.Sprintf("# pint snooze 2099-01-01 promql/series(m%d)", dm))
			} else {
				r.Comments = append(r.Comments, fmt.Sprintf("# pint disable promql/series(m%d)", dm))
			}
		}
		sc.Rules = append(sc.Rules, r)
	}
	switch rapid.IntRange(0, 5).Draw(rt, "multiround") {
	case 0: // a few iterations far apart
		nrounds := rapid.IntRange(1, detsim.Scale(2, 4)).Draw(rt, "rounds")
		for r := 0; r < nrounds; r++ {
			rs := RoundSpec{GapS: rapid.Int64Range(900, 4*3600).Draw(rt, "gap")}
			for range sc.Metrics {
				rs.Change = append(rs.Change, rapid.IntRange(0, 2).Draw(rt, "change"))
			}
			sc.Rounds = append(sc.Rounds, rs)
		}
	case 1: // `pint watch` with a short interval: answers are re-read again and again while the data changes once
		nrounds := rapid.IntRange(6, detsim.Scale(9, 12)).Draw(rt, "rounds")
		changeAt := rapid.IntRange(0, 2).Draw(rt, "changeAt")
		gap := rapid.Int64Range(45, 230).Draw(rt, "shortgap")
		for r := 0; r < nrounds; r++ {
			rs := RoundSpec{GapS: gap + int64(r)}
			for range sc.Metrics {
				c := 0
				if r == changeAt {
					c = rapid.IntRange(0, 2).Draw(rt, "change")
				}
				rs.Change = append(rs.Change, c)
			}
			sc.Rounds = append(sc.Rounds, rs)
		}
	}
	if rapid.IntRange(0, 4).Draw(rt, "others") == 0 {
		sc.OtherServers = rapid.IntRange(1, 2).Draw(rt, "nothers")
		sc.OtherDelayS = rapid.Int64Range(20, 260).Draw(rt, "otherDelay")
	}
	slowMain := sc.OtherServers == 0 && rapid.IntRange(0, 5).Draw(rt, "slowmain") == 0
	sc.Replica = rapid.Bool().Draw(rt, "replica")
	switch k := rapid.IntRange(0, 9).Draw(rt, "faultkind"); {
	case k < 5:
		sc.FaultKind = "none"
	case k < 7 && sc.Replica:
		sc.FaultKind = "failover"
	case k < 9:
		sc.FaultKind = "chaos"
	default:
		sc.FaultKind = "outage"
	}
	if slowMain && sc.FaultKind == "none" {
		sc.SlowMainS = rapid.Int64Range(305, 420).Draw(rt, "slowMainS")
		// keep a round within days of simulated time: few slices, several at once
		if sc.LookbackH > 12 {
			sc.LookbackH = 12
		}
		if sc.Concurrency < 4 {
			sc.Concurrency = 4
		}
	}
	unavailable := []string{simprom.ModeRefused, simprom.ModeStall, simprom.ModeHTTP500, simprom.ModeHTTP503, simprom.ModeJSONServerErr, simprom.ModeReset, simprom.ModeDialBlackHole}
	anyMode := append([]string{simprom.ModeTruncated, simprom.ModeTruncClean, simprom.ModeJSONCanceled, simprom.ModeGarbage, simprom.ModeBadData, simprom.ModeExecution, simprom.ModeNotFound, simprom.ModeJSONInternal, simprom.ModeWrongType}, unavailable...)
	ups := 1
	if sc.Replica {
		ups = 2
	}
	switch sc.FaultKind {
	case "failover":
		plan := []string{}
		n := rapid.IntRange(0, 12).Draw(rt, "planLen")
		for k := 0; k < n; k++ {
			if rapid.Bool().Draw(rt, "okslot") {
				plan = append(plan, simprom.ModeOK)
			} else {
				plan = append(plan, unavailable[rapid.IntRange(0, len(unavailable)-1).Draw(rt, "mode")])
			}
		}
		rest := simprom.ModeOK
		if rapid.Bool().Draw(rt, "restdown") {
			rest = unavailable[rapid.IntRange(0, len(unavailable)-1).Draw(rt, "rest")]
		}
		sc.Plan = [][]string{plan, {}}
		sc.Rest = []string{rest, simprom.ModeOK}
	case "chaos":
		for u := 0; u < ups; u++ {
			plan := []string{}
			n := rapid.IntRange(0, 12).Draw(rt, "planLen")
			for k := 0; k < n; k++ {
				if rapid.IntRange(0, 2).Draw(rt, "okslot") > 0 {
					plan = append(plan, simprom.ModeOK)
				} else {
					plan = append(plan, anyMode[rapid.IntRange(0, len(anyMode)-1).Draw(rt, "mode")])
				}
			}
			sc.Plan = append(sc.Plan, plan)
			sc.Rest = append(sc.Rest, simprom.ModeOK)
		}
	case "outage":
		for u := 0; u < ups; u++ {
			sc.Plan = append(sc.Plan, nil)
			sc.Rest = append(sc.Rest, unavailable[rapid.IntRange(0, len(unavailable)-1).Draw(rt, "down")])
		}
	}
	return sc
}

// extendDB appends the samples scraped in (from, to] for the metrics that are reporting.
func extendDB(db *simprom.MemDB, on []bool, from, to time.Time) {
	const scrape = 120
	for _, s := range db.Series {
		name := s.Labels.Get("__name__")
		if name != "up" {
			var idx int
			fmt.Sscanf(name, "m%d", &idx)
			if !on[idx] {
				continue
			}
		}
		t := from.Unix() + 1
		t += (scrape - t%scrape) % scrape
		for ; t <= to.Unix(); t += scrape {
			if len(s.Samples) == 0 || s.Samples[len(s.Samples)-1].T < t*1000 {
				s.Samples = append(s.Samples, simprom.Sample{T: t * 1000, V: float64(1 + t%7)})
			}
		}
	}
}

// buildDB generates the database relative to `now`.
func buildDB(sc *Scenario, now time.Time) *simprom.MemDB {
	db := &simprom.MemDB{}
	window := int64(sc.LookbackH) * 3600
	const scrape = 120
	nowS := now.Unix()
	add := func(ls labels.Labels, ivs [][2]int64) {
		s := &simprom.MemSeries{Labels: ls}
		for _, iv := range ivs {
			from := nowS + iv[0]
			from -= ((from % scrape) + scrape) % scrape
			for t := from; t <= nowS+iv[1]; t += scrape {
				if t >= nowS+iv[0] {
					s.Samples = append(s.Samples, simprom.Sample{T: t * 1000, V: float64(1 + t%7)})
				}
			}
		}
		sort.Slice(s.Samples, func(i, j int) bool { return s.Samples[i].T < s.Samples[j].T })
		db.Series = append(db.Series, s)
	}
	all := [2]int64{-window - 4*3600, 0}
	// uptime metric
	upIvs := [][2]int64{all}
	if len(sc.UpGapS) > 0 {
		g := sc.UpGapS[0]
		upIvs = [][2]int64{{all[0], g[0]}, {g[1], 0}}
	}
	add(labels.FromStrings("__name__", "up", "job", "prometheus", "instance", "sim:9090"), upIvs)
	for i, m := range sc.Metrics {
		name := fmt.Sprintf("m%d", i)
		for k := 0; k < m.NSer; k++ {
			ls := labels.FromStrings("__name__", name, "job", labelValues[k%3], "env", labelValues[(k+i)%3], "instance", fmt.Sprintf("i%d", k))
			var ivs [][2]int64
			switch m.Shape {
			case shapePresent:
				ivs = [][2]int64{all}
			case shapeNever:
				// the series exists but has no samples yet (it may start reporting in a later round)
			case shapeOtherValues:
				ls = labels.FromStrings("__name__", name, "job", "other", "env", "other", "instance", fmt.Sprintf("i%d", k))
				ivs = [][2]int64{all}
			case shapeDisappeared:
				ivs = [][2]int64{{all[0], -m.ParamS}}
			case shapeAppeared:
				ivs = [][2]int64{{-m.ParamS, 0}}
			case shapeIntermittent:
				for t := all[0]; t < 0; t += 2 * m.ParamS {
					e := t + m.ParamS
					if e > 0 {
						e = 0
					}
					ivs = append(ivs, [2]int64{t, e})
				}
			case shapeNoLabels:
				ls = labels.FromStrings("__name__", name, "instance", fmt.Sprintf("i%d", k))
				ivs = [][2]int64{all}
			case shapeOldOnly:
				gap := m.ParamS
				if gap == 0 {
					gap = 3600 // scenario files written before the gap was drawn
				}
				ivs = [][2]int64{{-window - gap - 3*3600, -window - gap}}
			}
			add(ls, ivs)
		}
	}
	return db
}

func rulesYAML(sc *Scenario) string {
	var sb strings.Builder
	sb.WriteString("groups:\n- name: sim\n  rules:\n")
	for _, r := range sc.Rules {
		for _, c := range r.Comments {
			fmt.Fprintf(&sb, "  %s\n", c)
		}
		if r.Record != "" {
			fmt.Fprintf(&sb, "  - record: %s\n    expr: %s\n", r.Record, r.Expr)
		} else {
			fmt.Fprintf(&sb, "  - alert: %s\n    expr: %s\n", r.Alert, r.Expr)
		}
	}
	return sb.String()
}

func parseEntries(content string) ([]discovery.Entry, error) {
	p := parser.NewParser(false, parser.PrometheusSchema, model.UTF8Validation)
	file := p.Parse(strings.NewReader(content))
	if file.Error.Err != nil {
		return nil, file.Error.Err
	}
	var entries []discovery.Entry
	for _, group := range file.Groups {
		for _, rule := range group.Rules {
			entries = append(entries, discovery.Entry{
				Path:          discovery.Path{Name: "rules.yml", SymlinkTarget: "rules.yml"},
				ModifiedLines: rule.Lines.Expand(),
				Rule:          rule,
				Group:         &group,
				File:          &file,
				State:         discovery.Added,
			})
		}
	}
	return entries, nil
}

func init() {
	simnet.InstallGlobalDialer()
	slog.SetDefault(slog.New(slog.NewTextHandler(io.Discard, nil)))
}

func TestC16(t *testing.T) {
	detsim.Main(t, detsim.Prop[Scenario]{ID: "C16", Draw: draw, Run: run})
}

type connTag struct{ mode string }

type ruleResult struct {
	round    int
	recent   []bool // per metric: its data changed less than 15 simulated minutes before this round
	now      time.Time
	end      time.Time // when the check of this rule returned
	idx      int
	problems []checks.Problem
}

func run(t *testing.T, sc Scenario, record bool) *detsim.Outcome {
	roundBudget := 48 * time.Hour
	if sc.SlowMainS > 0 {
		roundBudget = 30 * 24 * time.Hour // every request takes minutes
	}
	out := &detsim.Outcome{Probes: map[string]int{}, Faults: map[string]int{}}
	var mu sync.Mutex
	setViol := func(class, detail string) {
		mu.Lock()
		out.AddViolation(class, detail)
		mu.Unlock()
	}
	entries, err := parseEntries(rulesYAML(&sc))
	if err != nil {
		t.Fatalf("generated rules do not parse: %v\n%s", err, rulesYAML(&sc))
	}
	if len(entries) != len(sc.Rules) {
		t.Fatalf("generated %d rules, parsed %d", len(sc.Rules), len(entries))
	}
	var results []ruleResult
	var stats detsim.SchedStats
	var backend *simprom.EngineBackend
	var now time.Time
	live := true
	ups := 1
	if sc.Replica {
		ups = 2
	}
	appliedFaults := map[string]int{}

	leak := detsim.Bubble(t, func() {
		s := detsim.NewSched(sc.Sched, record, detsim.States)
		verifhook.Yield = s.HookYield
		verifhook.LockerWrap = s.WrapLocker
		defer func() { verifhook.Yield = nil; verifhook.LockerWrap = nil }()
		nw := simnet.New()
		simnet.Use(nw)
		t0 := time.Now()
		if sc.OffsetNs > 0 {
			time.Sleep(time.Duration(sc.OffsetNs))
		}
		now = time.Now()
		backend = simprom.NewEngineBackend(buildDB(&sc, now))
		servers := []*simprom.Server{}
		proms := []*promapi.Prometheus{}
		for i := 0; i < ups; i++ {
			host := fmt.Sprintf("prom%d:9090", i)
			srv := simprom.NewServer(i, host, s, backend)
			srv.FaultFn = func(req *simprom.Request) simprom.Fault {
				mode := simprom.ModeOK
				if tag, ok := req.ConnTag.(connTag); ok {
					mode = tag.mode
				}
				if mode == simprom.ModeWrongType && req.Endpoint != promapi.APIPathQuery && req.Endpoint != promapi.APIPathQueryRange {
					mode = simprom.ModeGarbage
				}
				f := simprom.Fault{Mode: mode}
				if sc.SlowMainS > 0 {
					f.DelayNs = sc.SlowMainS*int64(time.Second) + int64(req.ID)
				}
				return f
			}
			idx := i
			srv.StartCtx(nw, nil, func(k int, _ any) (simnet.DialAction, any) {
				mode := simprom.ModeOK
				if sc.FaultKind != "none" && idx < len(sc.Plan) {
					if k < len(sc.Plan[idx]) {
						mode = sc.Plan[idx][k]
					} else {
						mode = sc.Rest[idx]
					}
				}
				if mode != simprom.ModeOK {
					mu.Lock()
					appliedFaults[mode]++
					mu.Unlock()
				}
				switch mode {
				case simprom.ModeRefused:
					return simnet.DialRefuse, nil
				case simprom.ModeDialBlackHole:
					return simnet.DialBlackHole, nil
				}
				return simnet.DialOK, connTag{mode: mode}
			})
			servers = append(servers, srv)
			timeout := 5 * time.Second
			if sc.SlowMainS > 0 {
				timeout = 15 * time.Minute
			}
			proms = append(proms, promapi.NewPrometheus("sim", "http://"+host, "http://sim.example.com", nil, timeout, sc.Concurrency, 2000000000, nil))
		}
		fg := promapi.NewFailoverGroup("sim", "http://sim.example.com", proms, false, "up", nil, nil, nil)
		reg := prometheus.NewRegistry()
		s.Start()
		fg.StartWorkers(reg)

		settings := &checks.PromqlSeriesSettings{LookbackRange: fmt.Sprintf("%dh", sc.LookbackH), LookbackStep: fmt.Sprintf("%dm", sc.StepM), FallbackTimeout: "3m"}
		if err := settings.Validate(); err != nil {
			panic(err)
		}
		ctx := context.WithValue(context.Background(), checks.SettingsKey(checks.SeriesCheckName), settings)
		all := []*promapi.FailoverGroup{fg}
		for o := 0; o < sc.OtherServers; o++ {
			// healthy but slow servers that do not have any of the metrics
			host := fmt.Sprintf("other%d:9090", o)
			osrv := simprom.NewServer(10+o, host, s, simprom.NewEngineBackend(&simprom.MemDB{}))
			delay := sc.OtherDelayS
			osrv.FaultFn = func(req *simprom.Request) simprom.Fault {
				return simprom.Fault{Mode: simprom.ModeOK, DelayNs: delay*int64(time.Second) + int64(req.ID)}
			}
			osrv.Start(nw, nil)
			servers = append(servers, osrv)
			ofg := promapi.NewFailoverGroup(fmt.Sprintf("other%d", o), "http://"+host, []*promapi.Prometheus{
				promapi.NewPrometheus(fmt.Sprintf("other%d", o), "http://"+host, "", nil, 10*time.Minute, 4, 2000000000, nil),
			}, false, "up", nil, nil, nil)
			ofg.StartWorkers(reg)
			defer ofg.Close(reg)
			all = append(all, ofg)
		}
		if sc.OtherServers > 0 {
			ctx = context.WithValue(ctx, promapi.AllPrometheusServers, all)
			out.Probes["other_servers_configured"]++
		}
		check := checks.NewSeriesCheck(fg)

		on := make([]bool, len(sc.Metrics))
		for i, m := range sc.Metrics {
			switch m.Shape {
			case shapePresent, shapeOtherValues, shapeAppeared, shapeNoLabels:
				on[i] = true
			case shapeIntermittent:
				// whichever phase it is in right now goes on
				for _, srs := range backend.DB.Series {
					if srs.Labels.Get("__name__") == fmt.Sprintf("m%d", i) && len(srs.Samples) > 0 && srs.Samples[len(srs.Samples)-1].T >= (now.Unix()-120)*1000 {
						on[i] = true
					}
				}
			}
		}
		roundNow := now
		extendedUntil := now
		// The server keeps scraping while pint is asking: before every answer the database is brought
		// up to that instant with whatever is being exported at the moment. (Without this a check that
		// takes more than five simulated minutes - slow other servers - would see every series go stale.)
		backend.OnQuery = func(t time.Time) {
			if t.After(extendedUntil) {
				extendDB(backend.DB, on, extendedUntil, t)
				extendedUntil = t
			}
		}
		changedAt := make([]time.Time, len(sc.Metrics))
		for round := 0; round <= len(sc.Rounds) && live; round++ {
			if round > 0 {
				rs := sc.Rounds[round-1]
				time.Sleep(time.Duration(rs.GapS) * time.Second)
				roundNow = time.Now()
				for i, c := range rs.Change {
					was := on[i]
					switch c {
					case 1:
						on[i] = false
					case 2:
						on[i] = true
					}
					if was != on[i] || (round == 1 && sc.Metrics[i].Shape == shapeIntermittent) {
						changedAt[i] = roundNow
					}
				}
				// what was scraped while pint was idle - nothing is ever written into the past
				extendDB(backend.DB, on, extendedUntil, roundNow)
				extendedUntil = roundNow
				out.Probes["later_round"]++
				if rs.GapS < 600 {
					out.Probes["short_gap_round"]++
				}
			}
			recent := make([]bool, len(sc.Metrics))
			for i := range recent {
				recent[i] = !changedAt[i].IsZero() && roundNow.Sub(changedAt[i]) < 15*time.Minute
			}
			var wg sync.WaitGroup
			for w := 0; w < sc.Workers; w++ {
				wg.Add(1)
				name := fmt.Sprintf("worker%d", w)
				go func() {
					defer wg.Done()
					s.Name(name)
					s.Yield("start", name)
					for i := w; i < len(entries); i += sc.Workers {
						s.Yield("check", fmt.Sprintf("%s#%d", name, i))
						problems := check.Check(ctx, entries[i], entries)
						var sb strings.Builder
						for _, p := range problems {
							fmt.Fprintf(&sb, "%s/%s/%d;", p.Summary, p.Severity, len(p.Diagnostics))
						}
						s.Mix(fmt.Sprintf("%d/%s#%d:%s", round, name, i, sb.String()))
						mu.Lock()
						results = append(results, ruleResult{round: round, recent: recent, now: roundNow, end: time.Now(), idx: i, problems: problems})
						mu.Unlock()
					}
				}()
			}
			done := make(chan struct{})
			go func() { wg.Wait(); close(done) }()
			select {
			case <-done:
			case <-time.After(roundBudget):
				live = false
			}
		}
		out.SimNanos = int64(time.Since(t0))
		s.Stop()
		stats = s.Stats()
		if live {
			fg.Close(reg)
		}
		for _, srv := range servers {
			srv.Close()
		}
		nw.Close()
	})
	out.Sched = stats
	for k, v := range appliedFaults {
		out.Faults[k] += v
	}
	if !live {
		setViol("liveness", fmt.Sprintf("checks did not finish within %s of simulated time per round (leak: %s)", roundBudget, leak))
		return out
	}
	if leak != "" {
		setViol("goroutine-leak", leak)
	}
	if record {
		for _, rr := range results {
			for _, p := range rr.problems {
				d := p.Diagnostics[0]
				fmt.Printf("DEBUG round=%d rule=%d %s sev=%s cols=%d-%d %s\n", rr.round, rr.idx, p.Summary, p.Severity, d.FirstColumn, d.LastColumn, d.Message)
			}
		}
	}
	judge(&sc, entries, results, backend, out, setViol)
	return out
}

type selInfo struct {
	text       string
	bare       string
	start, end int // columns, 1-based inclusive range of the selector text
}

func selectorsOf(expr string) []selInfo {
	node, err := promParser.ParseExpr(expr)
	if err != nil {
		panic("generated expression does not parse: " + expr + ": " + err.Error())
	}
	var out []selInfo
	promParser.Inspect(node, func(n promParser.Node, _ []promParser.Node) error {
		if vs, ok := n.(*promParser.VectorSelector); ok {
			pr := vs.PositionRange()
			out = append(out, selInfo{text: expr[pr.Start:pr.End], bare: vs.Name, start: int(pr.Start) + 1, end: int(pr.End)})
		}
		return nil
	})
	return out
}

func judge(sc *Scenario, entries []discovery.Entry, results []ruleResult, be *simprom.EngineBackend, out *detsim.Outcome, setViol func(string, string)) {
	sort.Slice(results, func(i, j int) bool {
		if results[i].round != results[j].round {
			return results[i].round < results[j].round
		}
		return results[i].idx < results[j].idx
	})
	digest := fnv.New64a()
	recorded := map[string]bool{}
	for _, r := range sc.Rules {
		if r.Record != "" {
			recorded[r.Record] = true
		}
	}
	window := time.Duration(sc.LookbackH) * time.Hour
	strict := sc.FaultKind == "none" || sc.FaultKind == "failover"
	for _, rr := range results {
		rule := sc.Rules[rr.idx]
		now := rr.now
		fmt.Fprintf(digest, "%d.%d:", rr.round, rr.idx)
		unable := 0
		for _, p := range rr.problems {
			fmt.Fprintf(digest, "%s|%s|%d;", p.Summary, p.Severity, len(p.Diagnostics))
			if p.Reporter != checks.SeriesCheckName {
				setViol("foreign-reporter", fmt.Sprintf("round %d rule %d: problem reported under %q", rr.round, rr.idx, p.Reporter))
			}
			if p.Summary == "unable to run checks" {
				unable++
				out.Probes["unable_to_run"]++
				if sc.FaultKind == "none" {
					setViol("error-without-fault", fmt.Sprintf("round %d rule %d (%s): %s", rr.round, rr.idx, rule.Expr, p.Diagnostics[0].Message))
				}
				if sc.FaultKind == "failover" {
					setViol("error-despite-healthy-replica", fmt.Sprintf("round %d rule %d (%s): %s", rr.round, rr.idx, rule.Expr, p.Diagnostics[0].Message))
				}
				if sc.FaultKind == "outage" && p.Severity != checks.Warning {
					setViol("outage-not-a-warning", fmt.Sprintf("round %d rule %d (%s): severity %s: %s", rr.round, rr.idx, rule.Expr, p.Severity, p.Diagnostics[0].Message))
				}
			}
		}
		if sc.FaultKind == "outage" {
			for _, p := range rr.problems {
				if p.Summary == "query on nonexistent series" {
					setViol("verdict-during-outage", fmt.Sprintf("round %d rule %d (%s): every upstream is down, yet: %s", rr.round, rr.idx, rule.Expr, p.Diagnostics[0].Message))
				}
			}
		}
		disabledFor := map[string]bool{}
		for _, c := range rule.Comments {
			if i := strings.Index(c, "promql/series("); i >= 0 {
				disabledFor[strings.TrimSuffix(c[i+len("promql/series("):], ")")] = true
			}
		}
		sels := selectorsOf(rule.Expr)
		for _, sel := range sels {
			attributed := []checks.Problem{}
			for _, p := range rr.problems {
				if p.Summary != "query on nonexistent series" || len(p.Diagnostics) == 0 {
					continue
				}
				d := p.Diagnostics[0]
				if d.FirstColumn >= sel.start && d.LastColumn <= sel.end+1 {
					attributed = append(attributed, p)
				}
			}
			var mi int
			if _, err := fmt.Sscanf(sel.bare, "m%d", &mi); err == nil && mi < len(rr.recent) && rr.recent[mi] {
				// the data of this metric changed less than 15 minutes ago: answers cached before the
				// change may legitimately still be in use (harness bound, not pint's constants)
				out.Probes["skipped_recent_change"]++
				continue
			}
			// (a) no false "missing"
			vec, err := be.Eval(fmt.Sprintf("count(%s)", sel.text), now)
			if err != nil {
				panic(err)
			}
			presentNow := len(vec) > 0 && vec[0].F > 0
			if presentNow && rr.end.After(now) {
				// "currently" has to cover the whole time pint was asking: a metric that stopped a few minutes
				// before the round is still returned at its start (five-minute look-back) and no longer when a
				// slow check gets to it
				vecEnd, err := be.Eval(fmt.Sprintf("count(%s)", sel.text), rr.end)
				if err != nil {
					panic(err)
				}
				if !(len(vecEnd) > 0 && vecEnd[0].F > 0) {
					out.Probes["selector_went_stale_during_check"]++
					continue
				}
			}
			if presentNow {
				out.Probes["selector_present_now"]++
				for _, p := range attributed {
					setViol("false-missing", fmt.Sprintf("round %d rule %d `%s`: an instant query for `%s` returns %v series right now, yet promql/series says (%s): %s", rr.round, rr.idx, rule.Expr, sel.text, vec[0].F, p.Severity, p.Diagnostics[0].Message))
				}
				continue
			}
			out.Probes["selector_absent_now"]++
			// (b) no silent miss
			if hasFallback(rule.Expr) {
				out.Probes["b_skipped_fallback_shape"]++
				continue
			}
			if recorded[sel.bare] || disabledFor[sel.bare] {
				out.Probes["b_skipped_produced_or_exempt"]++
				continue
			}
			// any sample of the bare metric inside the window (the engine looks back 5m from the first step)?
			hist, err := be.Eval(fmt.Sprintf("count(count_over_time(%s[%ds]))", sel.bare, int64((window+10*time.Minute).Seconds())), now)
			if err != nil {
				panic(err)
			}
			if len(hist) > 0 && hist[0].F > 0 {
				out.Probes["b_metric_seen_in_window"]++
				continue
			}
			out.Probes["b_applicable"]++
			out.Nontrivial = true
			// pint's range probes start on a 2h boundary, up to 2h before the lookback window: a metric whose last
			// samples lie in that strip is inside what pint looks at although it is outside the window. What pint
			// says about it then (gone for good: Bug; comes and goes: Warning) is its reading of a wider window -
			// but it has to say something: silence is still a miss.
			slack, err := be.Eval(fmt.Sprintf("count(count_over_time(%s[%ds]))", sel.bare, int64((window+2*time.Hour+10*time.Minute).Seconds())), now)
			if err != nil {
				panic(err)
			}
			inSlack := len(slack) > 0 && slack[0].F > 0
			// the same selector text appearing twice is reported once, at its first occurrence
			bug := false
			for _, other := range sels {
				if other.text != sel.text {
					continue
				}
				for _, p := range rr.problems {
					if p.Summary == "query on nonexistent series" && (p.Severity == checks.Bug || inSlack) && len(p.Diagnostics) > 0 &&
						p.Diagnostics[0].FirstColumn >= other.start && p.Diagnostics[0].LastColumn <= other.end+1 {
						bug = true
						if inSlack && p.Severity != checks.Bug {
							out.Probes["b_last_seen_in_alignment_strip_reported_below_bug"]++
						}
					}
				}
			}
			if bug {
				out.Probes["b_bug_reported"]++
				continue
			}
			if !strict && unable > 0 {
				out.Probes["b_relaxed_unable"]++
				continue
			}
			if sc.FaultKind == "outage" {
				continue
			}
			if !strict {
				// a non-failover fault hit one of this rule's probes without producing an error problem:
				// pint may legitimately have learned nothing; only count it
				out.Probes["b_relaxed_chaos_silent"]++
				continue
			}
			setViol("silent-miss", fmt.Sprintf("round %d rule %d `%s`: metric `%s` has no sample in the last %s (plus margin), no rule produces it, no exemption - and no promql/series Bug points at `%s`; problems: %d", rr.round, rr.idx, rule.Expr, sel.bare, window, sel.text, len(rr.problems)))
		}
	}
	out.Digest = digest.Sum64()
	out.Summary = map[string]any{"rules": len(sc.Rules), "fault_kind": sc.FaultKind, "lookback_h": sc.LookbackH, "metrics": func() []string {
		o := []string{}
		for _, m := range sc.Metrics {
			o = append(o, shapeNames[m.Shape])
		}
		return o
	}()}
}
