// C15, second sentence: when every upstream is unavailable an online check
// surfaces that as a Warning-level problem (Bug if the server is `required`),
// not as a crash and not as a spurious finding about the rule. And while a
// healthy replica absorbs the faults, the verdicts equal the healthy baseline.
package c15

import (
	"context"
	"fmt"
	"hash/fnv"
	"os"
	"path/filepath"
	"regexp"
	"sort"
	"strings"
	"sync"
	"testing"
	"time"

	"github.com/prometheus/client_golang/prometheus"
	"github.com/prometheus/common/model"
	"github.com/prometheus/prometheus/model/labels"
	"pgregory.net/rapid"

	"github.com/cloudflare/pint/internal/checks"
	"github.com/cloudflare/pint/internal/config"
	"github.com/cloudflare/pint/internal/discovery"
	"github.com/cloudflare/pint/internal/parser"
	"github.com/cloudflare/pint/internal/promapi"
	"github.com/cloudflare/pint/internal/verifhook"
	"github.com/cloudflare/pint/verifsim/detsim"
	"github.com/cloudflare/pint/verifsim/simnet"
	"github.com/cloudflare/pint/verifsim/simprom"
)

type ChecksScenario struct {
	Sched     detsim.SchedConfig `json:"sched"`
	Upstreams int                `json:"upstreams"`
	Required  bool               `json:"required"`
	Workers   int                `json:"workers"`
	Rules     []int              `json:"rules"` // indices into the rule palette
	Kind      string             `json:"kind"`  // "outage": every upstream unavailable; "failover": earlier upstreams unavailable, the last one healthy
	Modes     [][]string         `json:"modes"` // per upstream: behaviours cycled over its connection attempts
}

var onlinePalette = []string{
	"- alert: Down\n  expr: up == 0\n  for: 5m\n  labels:\n    severity: page\n",
	"- alert: HighErrors\n  expr: rate(errors_total[2m]) > 0\n",
	"- alert: Requests\n  expr: rate(http_requests_total[1m]) > 100\n  labels:\n    cluster: prod\n",
	"- alert: Ratio\n  expr: errors_total / on(instance) http_requests_total > 0.1\n",
	"- alert: Missing\n  expr: missing_metric{job=\"x\"} > 1\n",
	"- alert: Absent\n  expr: absent(up{job=\"prometheus\"})\n  for: 1m\n",
	"- record: job:http:rate5m\n  expr: sum(rate(http_requests_total[5m])) by (job)\n",
	"- record: job:load\n  expr: avg_over_time(node_load1[3d])\n",
	"- record: flaky:sum\n  expr: sum(flaky_metric) by (job)\n  labels:\n    cluster: dev\n",
	"- alert: Join\n  expr: up * on(job) group_left(code) http_requests_total > 0\n",
}

var unavailableModes = []string{simprom.ModeRefused, simprom.ModeStall, simprom.ModeHTTP500, simprom.ModeHTTP502, simprom.ModeHTTP503, simprom.ModeJSONServerErr, simprom.ModeReset, simprom.ModeDialBlackHole}

func drawChecks(rt *rapid.T) ChecksScenario {
	var sc ChecksScenario
	sc.Sched = detsim.DrawSched(rt, 300)
	sc.Upstreams = rapid.IntRange(1, 3).Draw(rt, "upstreams")
	sc.Required = rapid.Bool().Draw(rt, "required")
	sc.Workers = rapid.IntRange(1, 4).Draw(rt, "workers")
	n := rapid.IntRange(1, 4).Draw(rt, "nrules")
	for i := 0; i < n; i++ {
		sc.Rules = append(sc.Rules, rapid.IntRange(0, len(onlinePalette)-1).Draw(rt, "rule"))
	}
	sc.Kind = "outage"
	if sc.Upstreams > 1 && rapid.IntRange(0, 2).Draw(rt, "kind") == 0 {
		sc.Kind = "failover"
	}
	for u := 0; u < sc.Upstreams; u++ {
		k := rapid.IntRange(1, 4).Draw(rt, "nmodes")
		ms := []string{}
		for i := 0; i < k; i++ {
			ms = append(ms, unavailableModes[rapid.IntRange(0, len(unavailableModes)-1).Draw(rt, "mode")])
		}
		if sc.Kind == "failover" && u == sc.Upstreams-1 {
			ms = []string{simprom.ModeOK}
		}
		sc.Modes = append(sc.Modes, ms)
	}
	return sc
}

func TestC15Checks(t *testing.T) {
	detsim.Main(t, detsim.Prop[ChecksScenario]{ID: "C15", Draw: drawChecks, Run: runChecks})
}

func constDB(now time.Time) *simprom.MemDB {
	db := &simprom.MemDB{}
	day := int64(86400)
	add := func(name string, lbls []string, ivs [][2]int64) {
		s := &simprom.MemSeries{Labels: labels.FromStrings(append([]string{"__name__", name}, lbls...)...)}
		for _, iv := range ivs {
			from := now.Unix() + iv[0]
			from -= ((from % 120) + 120) % 120
			for ts := from; ts <= now.Unix()+iv[1]; ts += 120 {
				s.Samples = append(s.Samples, simprom.Sample{T: ts * 1000, V: 1})
			}
		}
		db.Series = append(db.Series, s)
	}
	add("up", []string{"job", "prometheus", "instance", "sim:9090"}, [][2]int64{{-9 * day, 2 * day}})
	add("http_requests_total", []string{"job", "api", "instance", "a:80", "code", "200"}, [][2]int64{{-9 * day, 2 * day}})
	add("errors_total", []string{"job", "api", "instance", "a:80"}, [][2]int64{{-9 * day, -3 * day}})
	add("flaky_metric", []string{"job", "batch", "instance", "b:80"}, [][2]int64{{-9 * day, -6 * day}, {-4 * day, -2 * day}})
	add("node_load1", []string{"job", "node", "instance", "n:9100"}, [][2]int64{{-9 * day, 2 * day}})
	return db
}

type checkRun struct {
	problems map[string][]string // rule name -> normalised problems
	unable   map[string]int
	stats    detsim.SchedStats
	simNs    int64
	live     bool
	leak     string
	applied  map[string]int
	sevs     []string
}

var upstreamRe = regexp.MustCompile(`http://prom\d+:9090`)

func normProblem(p checks.Problem) string {
	var ds []string
	for _, d := range p.Diagnostics {
		// messages name the upstream that answered: which one it was is the failover's business, not the verdict's
		ds = append(ds, fmt.Sprintf("%s[%d-%d]", upstreamRe.ReplaceAllString(d.Message, "http://promN:9090"), d.FirstColumn, d.LastColumn))
	}
	sort.Strings(ds)
	return fmt.Sprintf("%s|%s|%s|%d-%d|%s", p.Reporter, p.Summary, p.Severity, p.Lines.First, p.Lines.Last, strings.Join(ds, ";"))
}

func runChecksOnce(t *testing.T, sc *ChecksScenario, sched detsim.SchedConfig, healthy bool, record bool) checkRun {
	res := checkRun{problems: map[string][]string{}, unable: map[string]int{}, live: true, applied: map[string]int{}}
	dir, err := os.MkdirTemp("", "verif-c15c-")
	if err != nil {
		t.Fatal(err)
	}
	defer os.RemoveAll(dir)
	var yml strings.Builder
	for _, r := range sc.Rules {
		yml.WriteString(onlinePalette[r])
	}
	p := parser.NewParser(false, parser.PrometheusSchema, model.UTF8Validation)
	file := p.Parse(strings.NewReader(yml.String()))
	if file.Error.Err != nil {
		t.Fatalf("generated rules do not parse: %v", file.Error.Err)
	}
	var entries []discovery.Entry
	for _, group := range file.Groups {
		for _, rule := range group.Rules {
			entries = append(entries, discovery.Entry{
				Path: discovery.Path{Name: "rules.yml", SymlinkTarget: "rules.yml"}, ModifiedLines: rule.Lines.Expand(),
				Rule: rule, Group: &group, File: &file, State: discovery.Added,
			})
		}
	}
	var mu sync.Mutex
	res.leak = detsim.Bubble(t, func() {
		s := detsim.NewSched(sched, record, detsim.States)
		verifhook.Yield = s.HookYield
		verifhook.LockerWrap = s.WrapLocker
		defer func() { verifhook.Yield = nil; verifhook.LockerWrap = nil }()
		nw := simnet.New()
		simnet.Use(nw)
		t0 := time.Now()
		time.Sleep(17 * time.Minute)
		now := time.Now()
		uris := []string{}
		for i := 0; i < sc.Upstreams; i++ {
			uris = append(uris, fmt.Sprintf("http://prom%d:9090", i))
		}
		var hcl strings.Builder
		fmt.Fprintf(&hcl, "prometheus \"sim\" {\n  uri = %q\n", uris[0])
		if len(uris) > 1 {
			fmt.Fprintf(&hcl, "  failover = [%s]\n", `"`+strings.Join(uris[1:], `", "`)+`"`)
		}
		fmt.Fprintf(&hcl, "  timeout = \"5s\"\n  required = %v\n  concurrency = 4\n  rateLimit = 2000000000\n}\n", sc.Required)
		hcl.WriteString("rule {\n  match { kind = \"alerting\" }\n  alerts {\n    range = \"1d\"\n    step = \"5m\"\n    resolve = \"5m\"\n  }\n  cost {}\n}\ncheck \"promql/series\" {\n  lookbackRange = \"1d\"\n}\n")
		cfgPath := filepath.Join(dir, ".pint.hcl")
		if err := os.WriteFile(cfgPath, []byte(hcl.String()), 0o644); err != nil {
			panic(err)
		}
		cfg, _, err := config.Load(cfgPath, true)
		if err != nil {
			panic("config.Load: " + err.Error())
		}
		be := simprom.NewEngineBackend(constDB(now))
		be.Metadata["http_requests_total"] = "counter"
		be.Metadata["errors_total"] = "counter"
		be.Metadata["up"] = "gauge"
		servers := []*simprom.Server{}
		for i := 0; i < sc.Upstreams; i++ {
			srv := simprom.NewServer(i, fmt.Sprintf("prom%d:9090", i), s, be)
			srv.FaultFn = func(req *simprom.Request) simprom.Fault {
				mode := simprom.ModeOK
				if tag, ok := req.ConnTag.(connTag); ok {
					mode = tag.mode
				}
				return simprom.Fault{Mode: mode}
			}
			idx := i
			srv.StartCtx(nw, nil, func(k int, _ any) (simnet.DialAction, any) {
				mode := simprom.ModeOK
				if !healthy {
					mode = sc.Modes[idx][k%len(sc.Modes[idx])]
				}
				if mode != simprom.ModeOK {
					mu.Lock()
					res.applied[mode]++
					mu.Unlock()
				}
				switch mode {
				case simprom.ModeRefused:
					return simnet.DialRefuse, nil
				case simprom.ModeDialBlackHole:
					return simnet.DialBlackHole, nil
				}
				return simnet.DialOK, connTag{mode: mode}
			})
			servers = append(servers, srv)
		}
		reg := prometheus.NewRegistry()
		gen := config.NewPrometheusGenerator(cfg, reg)
		s.Start()
		if err := gen.GenerateStatic(); err != nil {
			panic(err)
		}
		ctx := context.WithValue(context.Background(), config.CommandKey, config.LintCommand)
		ctx = context.WithValue(ctx, promapi.AllPrometheusServers, gen.Servers())
		for _, cs := range cfg.Check {
			settings, _ := cs.Decode()
			ctx = context.WithValue(ctx, checks.SettingsKey(cs.Name), settings)
		}
		type job struct {
			entry discovery.Entry
			check checks.RuleChecker
		}
		var jobs []job
		for _, e := range entries {
			for _, c := range cfg.GetChecksForEntry(ctx, gen, e) {
				if c.Meta().Online {
					jobs = append(jobs, job{e, c})
				}
			}
		}
		var wg sync.WaitGroup
		for w := 0; w < sc.Workers; w++ {
			wg.Add(1)
			name := fmt.Sprintf("worker%d", w)
			go func() {
				defer wg.Done()
				s.Name(name)
				s.Yield("start", name)
				for i := w; i < len(jobs); i += sc.Workers {
					s.Yield("check", fmt.Sprintf("%s#%d", name, i))
					ps := jobs[i].check.Check(ctx, jobs[i].entry, entries)
					mu.Lock()
					for _, p := range ps {
						rn := jobs[i].entry.Rule.Name()
						res.problems[rn] = append(res.problems[rn], normProblem(p))
						if p.Summary == "unable to run checks" {
							res.unable[jobs[i].check.String()]++
							res.sevs = append(res.sevs, p.Severity.String())
						}
					}
					mu.Unlock()
				}
			}()
		}
		done := make(chan struct{})
		go func() { wg.Wait(); close(done) }()
		select {
		case <-done:
		case <-time.After(100 * time.Hour):
			res.live = false
		}
		res.simNs = int64(time.Since(t0))
		s.Stop()
		res.stats = s.Stats()
		if res.live {
			gen.Stop()
		}
		for _, srv := range servers {
			srv.Close()
		}
		nw.Close()
	})
	return res
}

func runChecks(t *testing.T, sc ChecksScenario, record bool) *detsim.Outcome {
	out := &detsim.Outcome{Probes: map[string]int{}, Faults: map[string]int{}}
	base := runChecksOnce(t, &sc, detsim.SchedConfig{Order: detsim.OrderOldest}, true, false)
	if !base.live {
		out.AddViolation("liveness", "healthy baseline did not finish")
		return out
	}
	r := runChecksOnce(t, &sc, sc.Sched, false, record)
	out.Sched = r.stats
	out.SimNanos = base.simNs + r.simNs
	for k, v := range r.applied {
		out.Faults[k] += v
	}
	who := fmt.Sprintf("%s run (%d upstream(s), required=%v, behaviours %v)", sc.Kind, sc.Upstreams, sc.Required, sc.Modes)
	if !r.live {
		out.AddViolation("liveness", who+": checks did not finish (leak: "+r.leak+")")
		return out
	}
	if r.leak != "" {
		out.AddViolation("goroutine-leak", who+": "+r.leak)
	}
	digest := fnv.New64a()
	wantSev := "Warning"
	if sc.Required {
		wantSev = "Bug"
	}
	names := []string{}
	for n := range r.problems {
		names = append(names, n)
	}
	for n := range base.problems {
		if _, ok := r.problems[n]; !ok {
			names = append(names, n)
		}
	}
	sort.Strings(names)
	for _, n := range names {
		inBase := map[string]int{}
		for _, p := range base.problems[n] {
			inBase[p]++
		}
		got := append([]string{}, r.problems[n]...)
		sort.Strings(got)
		fmt.Fprintf(digest, "%s:%v;", n, got)
		switch sc.Kind {
		case "outage":
			for _, p := range got {
				if strings.Contains(p, "|unable to run checks|") {
					out.Probes["outage_reported_as_unable"]++
					if !strings.Contains(p, "|unable to run checks|"+wantSev+"|") {
						out.AddViolation("outage-wrong-severity", fmt.Sprintf("%s: rule `%s`: outage surfaced as %s (expected %s)", who, n, p, wantSev))
					}
					continue
				}
				if inBase[p] > 0 {
					inBase[p]--
					out.Probes["offline_part_still_reported"]++
					continue
				}
				out.AddViolation("spurious-finding-during-outage", fmt.Sprintf("%s: rule `%s`: every upstream is unavailable, yet the check says something it does not say against healthy servers: %s", who, n, p))
			}
		case "failover":
			want := append([]string{}, base.problems[n]...)
			sort.Strings(want)
			if strings.Join(want, "\n") != strings.Join(got, "\n") {
				out.AddViolation("failover-changed-verdict", fmt.Sprintf("%s: rule `%s`: a healthy replica with identical data was available, verdicts differ from the healthy baseline:\n  healthy: %v\n  got:     %v", who, n, want, got))
			} else {
				out.Probes["failover_equals_baseline"]++
			}
		}
	}
	if len(r.unable) > 0 {
		out.Nontrivial = true
	}
	for k := range r.unable {
		out.Probes["unable:"+strings.SplitN(k, "(", 2)[0]]++
	}
	out.Digest = digest.Sum64()
	out.Summary = map[string]any{"kind": sc.Kind, "rules": len(sc.Rules), "unable": r.unable}
	return out
}
