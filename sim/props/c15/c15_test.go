// C15: failover happens on unavailability only (first sentence of the property:
// ordered retry, only after connection errors / timeouts / 5xx, never after an
// error caused by the query, which is returned as is).
package c15

import (
	"context"
	"encoding/json"
	"errors"
	"fmt"
	"hash/fnv"
	"io"
	"log/slog"
	"net"
	"os"
	"path/filepath"
	"sort"
	"strings"
	"sync"
	"syscall"
	"testing"
	"time"

	"github.com/prometheus/client_golang/prometheus"
	"pgregory.net/rapid"

	"github.com/cloudflare/pint/internal/config"
	"github.com/cloudflare/pint/internal/promapi"
	"github.com/cloudflare/pint/internal/verifhook"
	"github.com/cloudflare/pint/verifsim/detsim"
	"github.com/cloudflare/pint/verifsim/simnet"
	"github.com/cloudflare/pint/verifsim/simprom"
)

const (
	kQuery = iota
	kRange
	kConfig
	kFlags
	kMetadata
)

var kindNames = []string{"query", "range", "config", "flags", "metadata"}
var endpoints = []string{promapi.APIPathQuery, promapi.APIPathQueryRange, promapi.APIPathConfig, promapi.APIPathFlags, promapi.APIPathMetadata}

type Op struct {
	Kind    int   `json:"kind"`
	ThinkNs int64 `json:"think_ns,omitempty"`
	// Q >= 0: the question comes from a small shared vocabulary, so later operations may be
	// answered from the cache; -1: a question nobody else asks
	Q int `json:"q"`
}

type Scenario struct {
	Sched     detsim.SchedConfig `json:"sched"`
	Upstreams int                `json:"upstreams"`
	Required  bool               `json:"required"`
	TimeoutS  int                `json:"timeout_s"`
	Callers   [][]Op             `json:"callers"`
	// Plan[u][k] is the behaviour of upstream u for its k-th connection attempt
	// (one attempt = one connection: keep-alives are off). Beyond the list: Rest[u].
	Plan [][]string `json:"plan"`
	Rest []string   `json:"rest"`
	// SplitBodies: healthy answers arrive in two parts (see simprom.Fault.SplitBody)
	SplitBodies bool `json:"split_bodies,omitempty"`
	// PublicURI: the prometheus block sets publicURI (one value for every upstream of the group)
	PublicURI bool `json:"public_uri,omitempty"`
}

// the property's nine modes first, then the extra ones
var seqModes = []string{
	simprom.ModeOK, simprom.ModeRefused, simprom.ModeStall, simprom.ModeHTTP500, simprom.ModeJSONServerErr,
	simprom.ModeBadData, simprom.ModeExecution, simprom.ModeNotFound, simprom.ModeTruncated,
	simprom.ModeDialBlackHole, simprom.ModeHTTP503, simprom.ModeReset,
	simprom.ModeHTTP502, simprom.ModeGarbage, simprom.ModeWrongType,
	simprom.ModeJSONInternal, simprom.ModeJSONUnavail, simprom.ModeJSONTimeout,
	simprom.ModeOKBadData,
	simprom.ModeJSONCanceled, simprom.ModeTruncClean,
}

// the static sweep enumerates all of them
var sweepModes = seqModes

const (
	clsSuccess = iota
	clsMustFailover
	clsMustNot
	clsEither
)

// class is the reading of the property the oracle enforces; see DESIGN.md §5.6.
func class(mode string) int {
	switch mode {
	case simprom.ModeOK:
		return clsSuccess
	case "timeout_midbody":
		return clsMustFailover
	case simprom.ModeRefused, simprom.ModeDialBlackHole, simprom.ModeStall, simprom.ModeReset,
		simprom.ModeHTTP500, simprom.ModeHTTP502, simprom.ModeHTTP503, simprom.ModeJSONServerErr:
		return clsMustFailover
	case simprom.ModeBadData, simprom.ModeExecution, simprom.ModeOKBadData:
		return clsMustNot
	default:
		// 404, truncated / garbage / wrong-type 200 bodies, 5xx carrying
		// Prometheus-native JSON error types: the property does not say
		return clsEither
	}
}

func drawMode(rt *rapid.T, label string) string {
	// healthy is over-represented so that most operations get somewhere
	if rapid.IntRange(0, 9).Draw(rt, label+"ok") < 4 {
		return simprom.ModeOK
	}
	return seqModes[rapid.IntRange(0, len(seqModes)-1).Draw(rt, label)]
}

func draw(rt *rapid.T) Scenario {
	var sc Scenario
	sc.Sched = detsim.DrawSchedPauses(rt, 300)
	sc.Upstreams = rapid.IntRange(1, 3).Draw(rt, "upstreams")
	sc.Required = rapid.Bool().Draw(rt, "required")
	sc.TimeoutS = []int{1, 5, 30}[rapid.IntRange(0, 2).Draw(rt, "timeout")]
	sc.PublicURI = rapid.IntRange(0, 2).Draw(rt, "publicuri") == 0
	repeat := rapid.IntRange(0, 2).Draw(rt, "repeat") == 0
	ncallers := rapid.IntRange(1, detsim.Scale(5, 8)).Draw(rt, "callers")
	for c := 0; c < ncallers; c++ {
		nops := rapid.IntRange(1, 4).Draw(rt, "nops")
		ops := []Op{}
		for i := 0; i < nops; i++ {
			op := Op{Kind: []int{kQuery, kQuery, kRange, kConfig, kFlags, kMetadata}[rapid.IntRange(0, 5).Draw(rt, "kind")], Q: -1}
			if repeat && (op.Kind == kQuery || op.Kind == kMetadata) {
				op.Q = rapid.IntRange(0, 1).Draw(rt, "q")
			}
			if rapid.IntRange(0, 2).Draw(rt, "think") == 0 {
				op.ThinkNs = rapid.Int64Range(1, int64(2*time.Second)).Draw(rt, "thinkNs")
			}
			ops = append(ops, op)
		}
		sc.Callers = append(sc.Callers, ops)
	}
	sc.SplitBodies = rapid.IntRange(0, 2).Draw(rt, "split") == 0
	faultFree := rapid.IntRange(0, 9).Draw(rt, "faultfree") < 2
	for u := 0; u < sc.Upstreams; u++ {
		plan := []string{}
		rest := simprom.ModeOK
		if !faultFree {
			n := rapid.IntRange(0, 10).Draw(rt, "planLen")
			for k := 0; k < n; k++ {
				plan = append(plan, drawMode(rt, "mode"))
			}
			rest = drawMode(rt, "rest")
		}
		sc.Plan = append(sc.Plan, plan)
		sc.Rest = append(sc.Rest, rest)
	}
	return sc
}

type connTag struct {
	op   int
	mode string
}

type attempt struct {
	Op   int
	Up   int
	Mode string
	Seq  int64
}

type result struct {
	Caller, Idx int
	ID          int
	Op          Op
	Call, Ret   int64
	Err         error
	Answers     []simprom.Answer
}

func init() {
	simnet.InstallGlobalDialer()
	slog.SetDefault(slog.New(slog.NewTextHandler(io.Discard, nil)))
}

func TestC15(t *testing.T) {
	detsim.Main(t, detsim.Prop[Scenario]{ID: "C15", Draw: draw, Run: run})
}

func modeFor(sc *Scenario, u, k int) string {
	if k < len(sc.Plan[u]) {
		return sc.Plan[u][k]
	}
	return sc.Rest[u]
}

func run(t *testing.T, sc Scenario, record bool) *detsim.Outcome {
	out := &detsim.Outcome{Probes: map[string]int{}, Faults: map[string]int{}}
	var mu sync.Mutex
	setViol := func(class, detail string) {
		mu.Lock()
		out.AddViolation(class, detail)
		mu.Unlock()
	}
	var attempts []attempt
	var results []result
	var logs [][]simprom.Request
	var stats detsim.SchedStats
	live := true
	dir, err := os.MkdirTemp("", "verif-c15-")
	if err != nil {
		t.Fatal(err)
	}
	defer os.RemoveAll(dir)

	leak := detsim.Bubble(t, func() {
		s := detsim.NewSched(sc.Sched, record, detsim.States)
		verifhook.Yield = s.HookYield
		verifhook.LockerWrap = s.WrapLocker
		defer func() { verifhook.Yield = nil; verifhook.LockerWrap = nil }()
		nw := simnet.New()
		simnet.Use(nw)
		t0 := time.Now()

		// the failover group is built by pint's own configuration code
		uris := []string{}
		for i := 0; i < sc.Upstreams; i++ {
			uris = append(uris, fmt.Sprintf("http://prom%d:9090", i))
		}
		var hcl strings.Builder
		fmt.Fprintf(&hcl, "prometheus \"sim\" {\n  uri = %q\n", uris[0])
		if len(uris) > 1 {
			fmt.Fprintf(&hcl, "  failover = [%s]\n", `"`+strings.Join(uris[1:], `", "`)+`"`)
		}
		if sc.PublicURI {
			fmt.Fprintf(&hcl, "  publicURI = \"http://public.example.com\"\n")
		}
		fmt.Fprintf(&hcl, "  timeout = \"%ds\"\n  required = %v\n  concurrency = 4\n  rateLimit = 2000000000\n}\n", sc.TimeoutS, sc.Required)
		cfgPath := filepath.Join(dir, ".pint.hcl")
		if err := os.WriteFile(cfgPath, []byte(hcl.String()), 0o644); err != nil {
			panic(err)
		}
		cfg, _, err := config.Load(cfgPath, true)
		if err != nil {
			panic("config.Load: " + err.Error())
		}

		servers := []*simprom.Server{}
		for i := 0; i < sc.Upstreams; i++ {
			srv := simprom.NewServer(i, fmt.Sprintf("prom%d:9090", i), s, simprom.SerialBackend{})
			srv.FaultFn = func(req *simprom.Request) simprom.Fault {
				tag, ok := req.ConnTag.(connTag)
				if !ok {
					panic("request without a connection tag")
				}
				mode := tag.mode
				if mode == simprom.ModeWrongType && req.Endpoint != promapi.APIPathQuery && req.Endpoint != promapi.APIPathQueryRange {
					// only query answers have a result type; elsewhere this body is a valid empty success
					mode = simprom.ModeGarbage
				}
				return simprom.Fault{Mode: mode, SplitBody: sc.SplitBodies}
			}
			idx := i
			srv.StartCtx(nw, nil, func(k int, op any) (simnet.DialAction, any) {
				opID, ok := op.(int)
				if !ok {
					panic("dial without operation attribution: the context value did not reach the dialer")
				}
				mode := modeFor(&sc, idx, k)
				mu.Lock()
				attempts = append(attempts, attempt{Op: opID, Up: idx, Mode: mode, Seq: s.Seq()})
				out.Faults[mode]++
				mu.Unlock()
				switch mode {
				case simprom.ModeRefused:
					return simnet.DialRefuse, nil
				case simprom.ModeDialBlackHole:
					return simnet.DialBlackHole, nil
				}
				return simnet.DialOK, connTag{op: opID, mode: mode}
			})
			servers = append(servers, srv)
		}
		reg := prometheus.NewRegistry()
		gen := config.NewPrometheusGenerator(cfg, reg)
		s.Start()
		if err := gen.GenerateStatic(); err != nil {
			panic(err)
		}
		fg := gen.ServerWithName("sim")
		if fg == nil || fg.ServerCount() != sc.Upstreams {
			panic("generator did not build the configured failover group")
		}

		var wg sync.WaitGroup
		budget := time.Hour
		nops := 0
		opID := 0
		for c, ops := range sc.Callers {
			ids := []int{}
			for _, op := range ops {
				budget += time.Duration(op.ThinkNs)
				nops++
				ids = append(ids, opID)
				opID++
			}
			wg.Add(1)
			name := fmt.Sprintf("caller%02d", c)
			go func() {
				defer wg.Done()
				s.Name(name)
				s.Yield("start", name)
				for i, op := range ops {
					if op.ThinkNs > 0 {
						time.Sleep(time.Duration(op.ThinkNs) + time.Duration(c*7+i))
					}
					s.Yield("op", name)
					id := ids[i]
					ctx := context.WithValue(context.Background(), simnet.OpKey, id)
					r := result{Caller: c, Idx: i, ID: id, Op: op}
					r.Call = s.Seq()
					switch op.Kind {
					case kQuery:
						expr := fmt.Sprintf("q_%d", id)
						if op.Q >= 0 {
							expr = fmt.Sprintf("shared_q_%d", op.Q)
						}
						qr, err := fg.Query(ctx, expr)
						r.Err = err
						if err == nil {
							r.Answers, _ = simprom.DecodeQuery(qr)
						}
					case kRange:
						rr, err := fg.RangeQuery(ctx, fmt.Sprintf("r_%d", id), promapi.NewRelativeRange(3*time.Hour, 5*time.Minute))
						r.Err = err
						if err == nil {
							r.Answers = simprom.DecodeRange(rr)
						}
					case kConfig:
						cr, err := fg.Config(ctx, 0)
						r.Err = err
						if err == nil {
							r.Answers = []simprom.Answer{simprom.DecodeConfig(cr)}
						}
					case kFlags:
						fr, err := fg.Flags(ctx)
						r.Err = err
						if err == nil {
							r.Answers = []simprom.Answer{simprom.DecodeFlags(fr)}
						}
					case kMetadata:
						metric := fmt.Sprintf("m_%d", id)
						if op.Q >= 0 {
							metric = fmt.Sprintf("shared_m_%d", op.Q)
						}
						mr, err := fg.Metadata(ctx, metric)
						r.Err = err
						if err == nil {
							a, derr := simprom.DecodeMetadata(mr)
							if derr != nil {
								setViol("malformed-result", derr.Error())
							}
							r.Answers = []simprom.Answer{a}
						}
					}
					r.Ret = s.Seq()
					s.Mix(fmt.Sprintf("%s#%d:%v:%v", name, i, r.Answers, r.Err))
					mu.Lock()
					results = append(results, r)
					mu.Unlock()
				}
			}()
		}
		budget += time.Duration(nops*sc.Upstreams*3) * (time.Duration(sc.TimeoutS)*time.Second + 3*time.Second) * 4
		done := make(chan struct{})
		go func() { wg.Wait(); close(done) }()
		select {
		case <-done:
		case <-time.After(budget):
			live = false
		}
		out.SimNanos = int64(time.Since(t0))
		for _, srv := range servers {
			logs = append(logs, srv.Snapshot())
		}
		s.Stop()
		stats = s.Stats()
		if live {
			gen.Stop()
		}
		for _, srv := range servers {
			srv.Close()
		}
		nw.Close()
	})
	out.Sched = stats
	if stats.Pauses > 0 {
		out.Probes["scheduler_pauses"] += stats.Pauses
	}
	if !live {
		setViol("liveness", fmt.Sprintf("callers did not finish within the simulated budget (leak: %s)", leak))
	} else if leak != "" {
		setViol("goroutine-leak", leak)
	}
	mu.Lock() // free-running auxiliary runs: nothing may still be appending, but the race detector is the judge there
	attempts = append([]attempt(nil), attempts...)
	mu.Unlock()
	if record {
		for _, a := range attempts {
			fmt.Printf("DEBUG attempt op=%d up=%d mode=%s seq=%d\n", a.Op, a.Up, a.Mode, a.Seq)
		}
		for up := range logs {
			for _, r := range logs[up] {
				fmt.Printf("DEBUG server up=%d #%d %s outcome=%s arrive=%d end=%d\n", up, r.ID, r.Identity, r.Outcome, r.ArriveSeq, r.EndSeq)
			}
		}
		for _, r := range results {
			fmt.Printf("DEBUG result op=%d kind=%s answers=%v err=%v\n", r.ID, kindNames[r.Op.Kind], r.Answers, r.Err)
		}
	}
	judge(sc, attempts, results, logs, out, setViol)
	return out
}

func apiErr(err error) (promapi.APIError, bool) {
	var e promapi.APIError
	ok := errors.As(err, &e)
	return e, ok
}

func isTimeout(err error) bool {
	var ne net.Error
	if errors.As(err, &ne) && ne.Timeout() {
		return true
	}
	return errors.Is(err, context.DeadlineExceeded)
}

// errMatchesMode: could err be what pint hands back, unchanged, for an attempt that met this behaviour?
func errMatchesMode(err error, mode string) bool {
	e, isAPI := apiErr(err)
	switch mode {
	case simprom.ModeBadData:
		return isAPI && string(e.ErrorType) == "bad_data" && e.Err == "injected bad_data: parse error"
	case simprom.ModeExecution:
		return isAPI && string(e.ErrorType) == "execution" && e.Err == "injected execution error"
	case simprom.ModeOKBadData:
		return isAPI && string(e.ErrorType) == "bad_data" && e.Err == "injected bad_data in a 200 body"
	case simprom.ModeJSONServerErr:
		return isAPI && string(e.ErrorType) == "server_error" && e.Err == "injected server_error"
	case simprom.ModeHTTP500, simprom.ModeHTTP502, simprom.ModeHTTP503:
		return isAPI && string(e.ErrorType) == "server_error"
	case simprom.ModeRefused:
		return errors.Is(err, syscall.ECONNREFUSED)
	case simprom.ModeStall, simprom.ModeDialBlackHole:
		return isTimeout(err)
	case simprom.ModeReset:
		return !isAPI
	case simprom.ModeOK:
		return false
	case "client_timeout":
		return isTimeout(err) || errors.Is(err, context.Canceled)
	case "timeout_midbody":
		return isTimeout(err)
	}
	return true // unspecified behaviours: any error
}

func judge(sc Scenario, attempts []attempt, results []result, logs [][]simprom.Request, out *detsim.Outcome, setViol func(string, string)) {
	sort.Slice(attempts, func(i, j int) bool { return attempts[i].Seq < attempts[j].Seq })
	sort.Slice(results, func(i, j int) bool { return results[i].Call < results[j].Call })
	byOp := map[int][]attempt{}
	for _, a := range attempts {
		byOp[a.Op] = append(byOp[a.Op], a)
	}
	// what the servers really did with each attempt (aborted = the client went away first)
	applied := map[int]map[int][]string{} // op -> up -> outcomes in order
	for up := range logs {
		for _, r := range logs[up] {
			tag, ok := r.ConnTag.(connTag)
			if !ok {
				continue
			}
			if applied[tag.op] == nil {
				applied[tag.op] = map[int][]string{}
			}
			applied[tag.op][up] = append(applied[tag.op][up], r.Outcome)
		}
	}
	// serial -> successful request, to recognise cache hits
	type sk struct{ up, serial int }
	serialOp := map[sk]int{}
	for up := range logs {
		for _, r := range logs[up] {
			if r.Outcome == simprom.ModeOK {
				if tag, ok := r.ConnTag.(connTag); ok {
					serialOp[sk{up, r.Serial}] = tag.op
				}
			}
		}
	}
	// 404 on a status endpoint switches that endpoint off for that upstream (documented pint behaviour)
	type dk struct {
		up       int
		endpoint string
	}
	disabledAt := map[dk]int64{}
	for up := range logs {
		for _, r := range logs[up] {
			if r.Outcome == simprom.ModeNotFound && (r.Endpoint == promapi.APIPathConfig || r.Endpoint == promapi.APIPathFlags || r.Endpoint == promapi.APIPathMetadata) {
				k := dk{up, r.Endpoint}
				if _, ok := disabledAt[k]; !ok {
					disabledAt[k] = r.EndSeq
				}
			}
		}
	}

	for up := range logs {
		for i := range logs[up] {
			for j := i + 1; j < len(logs[up]); j++ {
				a, b := logs[up][i], logs[up][j]
				if a.EndSeq > 0 && b.ArriveSeq < a.EndSeq && a.ArriveSeq < b.ArriveSeq {
					out.Probes["overlapping_requests"]++
				}
			}
		}
	}
	digest := fnv.New64a()
	type rejectedAnswer struct {
		mode string
		seq  int64
	}
	// question -> upstream -> the errors caused by the query that this upstream answered it with (and when)
	rejected := map[string]map[int][]rejectedAnswer{}
	identOf := map[int]string{}
	for _, r := range results {
		identOf[r.ID] = fmt.Sprintf("%d/%d", r.Op.Kind, r.Op.Q)
	}
	for up := range logs {
		for _, lr := range logs[up] {
			tag, ok := lr.ConnTag.(connTag)
			if !ok || class(lr.Outcome) != clsMustNot || lr.EndSeq == 0 {
				continue
			}
			id := identOf[tag.op]
			if rejected[id] == nil {
				rejected[id] = map[int][]rejectedAnswer{}
			}
			rejected[id][up] = append(rejected[id][up], rejectedAnswer{mode: lr.Outcome, seq: lr.EndSeq})
		}
	}
	uri := func(u int) string { return fmt.Sprintf("http://prom%d:9090", u) }
	for _, r := range results {
		fmt.Fprintf(digest, "%d:%v:%v;", r.ID, r.Answers, r.Err)
		who := fmt.Sprintf("op %d (%s, caller %d)", r.ID, kindNames[r.Op.Kind], r.Caller)
		endpoint := endpoints[r.Op.Kind]
		at := byOp[r.ID]
		// failures per upstream that were really applied to this operation
		failed := map[int][]string{}
		abortedOn := map[int]int{}
		midbody := map[int]int{}
		okOn := map[int]int{}
		visited := []int{}
		seen := map[int]bool{}
		dialIdx := map[int]int{}
		type attemptOutcome struct {
			up      int
			outcome string
		}
		var outs []attemptOutcome
		for _, a := range at {
			if !seen[a.Up] {
				// an upstream is entered only after every earlier one was left: no interleaving back
				visited = append(visited, a.Up)
				seen[a.Up] = true
			} else if visited[len(visited)-1] != a.Up {
				setViol("revisited-upstream", fmt.Sprintf("%s went back to upstream %d after trying upstream %d", who, a.Up, visited[len(visited)-1]))
			}
			outcome := a.Mode
			if a.Mode != simprom.ModeRefused && a.Mode != simprom.ModeDialBlackHole {
				k := dialIdx[a.Up]
				dialIdx[a.Up]++
				if k < len(applied[r.ID][a.Up]) {
					outcome = applied[r.ID][a.Up][k]
				} else {
					outcome = "aborted" // connection made, request never read: the client was already gone
				}
			}
			outs = append(outs, attemptOutcome{a.Up, outcome})
		}
		if r.Op.Kind != kRange {
			// One question, one request at a time. Asking the same upstream again is not something the
			// property forbids (the first upstream that is reachable answers), but only unavailability
			// may be followed by another attempt: an answer - a result or an error caused by the query -
			// is final. What counts for the rest of the judgement is each upstream's last word.
			var lastWord []attemptOutcome
			for i, o := range outs {
				if i+1 < len(outs) && outs[i+1].up == o.up {
					out.Probes["same_upstream_retry"]++
					if o.outcome == simprom.ModeOK || o.outcome != "aborted" && o.outcome != "aborted_midbody" && class(o.outcome) == clsMustNot {
						setViol("asked-again-after-answer", fmt.Sprintf("%s: upstream %d answered %s and was asked again", who, o.up, o.outcome))
					}
					continue
				}
				lastWord = append(lastWord, o)
			}
			outs = lastWord
		}
		for _, o := range outs {
			a := o
			outcome := o.outcome
			_ = a
			switch outcome {
			case "aborted_midbody":
				// the client went away while the answer was still arriving: either a failed sibling
				// slice cancelled it, or its own deadline fired - a timeout of this upstream
				abortedOn[o.up]++
				midbody[o.up]++
			case "aborted":
				abortedOn[o.up]++
				if len(sc.Sched.Pauses) > 0 && r.Op.Kind != kRange {
					// the scheduler held this answer back until the client's own deadline fired:
					// for pint that is a timeout of a slow upstream (whether the pause was long
					// enough is a matter of nanoseconds, so failing over is allowed, not demanded)
					failed[o.up] = append(failed[o.up], "client_timeout")
				}
			case simprom.ModeOK:
				okOn[o.up]++
			default:
				failed[o.up] = append(failed[o.up], outcome)
			}
		}
		for u, n := range midbody {
			if n > 0 && len(failed[u]) == 0 {
				// nothing else failed there, so it was the deadline: a timeout, after which the next upstream must be tried
				failed[u] = append(failed[u], "timeout_midbody")
				out.Probes["timeout_while_reading_body"]++
			}
		}
		if r.Op.Kind == kRange && len(sc.Sched.Pauses) > 0 {
			// slices abandoned by the client: a held-back answer may have run into the deadline (or a
			// failed sibling cancelled it - cannot be told apart here, so this only widens what is accepted)
			for u, n := range abortedOn {
				if n > 0 {
					failed[u] = append(failed[u], "client_timeout")
				}
			}
		}
		if r.Op.Kind == kRange && r.Err == nil && len(visited) > 0 {
			// slices are separate requests; a slice that met unavailability and was then asked again of the
			// same upstream with success leaves no failure behind (identity known only for requests a server saw)
			u := visited[len(visited)-1]
			type span struct{ arrive, end int64 }
			okByID := map[string][]span{}
			var bad []simprom.Request
			for _, lr := range logs[u] {
				if tag, ok := lr.ConnTag.(connTag); !ok || tag.op != r.ID {
					continue
				}
				if lr.Outcome == simprom.ModeOK {
					okByID[lr.Identity] = append(okByID[lr.Identity], span{lr.ArriveSeq, lr.EndSeq})
				} else if !strings.HasPrefix(lr.Outcome, "aborted") {
					bad = append(bad, lr)
				}
			}
			redeemed := len(failed[u]) > 0 && okOn[u] > 0
			for _, m := range failed[u] {
				if c := class(m); c != clsMustFailover && c != clsEither {
					redeemed = false
				}
			}
			for _, b := range bad {
				later := false
				for _, sp := range okByID[b.Identity] {
					if sp.arrive > b.EndSeq {
						later = true
					}
				}
				if !later {
					redeemed = false
				}
			}
			if redeemed {
				out.Probes["same_upstream_retry"]++
				delete(failed, u)
			}
		}
		// cache hits are virtual attempts on the upstream whose stored answer was used
		cacheUp := -1
		if r.Err == nil && len(r.Answers) > 0 {
			a0 := r.Answers[0]
			if op, ok := serialOp[sk{a0.Up, a0.Serial}]; !ok {
				setViol("unattributable-result", fmt.Sprintf("%s returned serial %d of upstream %d which no server produced", who, a0.Serial, a0.Up))
			} else if op != r.ID {
				if r.Op.Kind == kConfig || r.Op.Kind == kFlags || r.Op.Q >= 0 {
					cacheUp = a0.Up
					out.Probes["cache_hit"]++
				} else {
					setViol("foreign-result", fmt.Sprintf("%s received the answer fetched for op %d", who, op))
				}
			}
		}
		// an error caused by the query itself may be remembered too (the property does not say a rejected
		// question must be sent again): an operation that ends with exactly the error an upstream gave to the same
		// question before, attributed to that upstream, was answered by it - from memory, without a connection
		shared := r.Op.Kind == kConfig || r.Op.Kind == kFlags || r.Op.Q >= 0
		ident := fmt.Sprintf("%d/%d", r.Op.Kind, r.Op.Q)
		if r.Err != nil && shared {
			lastSeen := -1
			if len(visited) > 0 {
				lastSeen = visited[len(visited)-1]
			}
			explained := false // does what the last upstream really did already account for this error?
			var fe *promapi.FailoverGroupError
			isFE := errors.As(r.Err, &fe)
			if lastSeen >= 0 {
				for _, m := range failed[lastSeen] {
					if !errMatchesMode(r.Err, m) {
						continue
					}
					// behaviours the property leaves open match any error: there the upstream the error is attributed to decides
					if class(m) != clsEither || sc.PublicURI || !isFE || fe.URI() == uri(lastSeen) {
						explained = true
					}
				}
			}
			if !explained && isFE {
				for u := lastSeen + 1; u < sc.Upstreams; u++ {
					hit := false
					for _, m := range rejected[ident][u] {
						if m.seq < r.Ret && errMatchesMode(r.Err, m.mode) && (sc.PublicURI || fe.URI() == uri(u)) {
							visited = append(visited, u)
							seen[u] = true
							failed[u] = []string{m.mode}
							out.Probes["rejected_question_answered_from_memory"]++
							hit = true
							break
						}
					}
					if hit {
						break
					}
				}
			}
		}
		// (1) configured order, no skips (except endpoints switched off by an earlier 404)
		last := -1
		if len(visited) > 0 {
			last = visited[len(visited)-1]
		}
		if cacheUp > last {
			last = cacheUp
		}
		for i, u := range visited {
			if i > 0 && u < visited[i-1] {
				setViol("out-of-order", fmt.Sprintf("%s tried upstream %d after upstream %d", who, u, visited[i-1]))
			}
		}
		for u := 0; u < last; u++ {
			if seen[u] {
				continue
			}
			if seqAt, ok := disabledAt[dk{u, endpoint}]; ok && seqAt < r.Ret {
				out.Probes["skipped_unsupported"]++
				continue
			}
			setViol("skipped-upstream", fmt.Sprintf("%s reached upstream %d without trying upstream %d", who, last, u))
		}
		// (2) moving on from upstream u needs an unavailability there
		for _, u := range visited {
			if u == last {
				continue
			}
			out.Probes["failover_hop"]++
			if len(failed[u]) == 0 {
				setViol("failover-without-error", fmt.Sprintf("%s moved past upstream %d although nothing failed there", who, u))
				continue
			}
			allowed := false
			for _, m := range failed[u] {
				if c := class(m); c == clsMustFailover || c == clsEither {
					allowed = true
				}
			}
			if !allowed {
				setViol("failover-after-query-error", fmt.Sprintf("%s: upstream %d answered %v (an error caused by the query) and upstream %d was contacted afterwards", who, u, failed[u], last))
			}
		}
		// (3) stopping at upstream `last` while later ones exist needs a reason to stop
		if last >= 0 && last < sc.Upstreams-1 && cacheUp != last {
			if len(failed[last]) > 0 {
				mayStop := false
				for _, m := range failed[last] {
					if c := class(m); c == clsMustNot || c == clsEither {
						mayStop = true
					}
				}
				if !mayStop {
					// every later upstream must be switched off for this endpoint, else this is a missing failover
					excused := true
					for u := last + 1; u < sc.Upstreams; u++ {
						if seqAt, ok := disabledAt[dk{u, endpoint}]; !ok || seqAt >= r.Ret {
							excused = false
						}
					}
					if !excused {
						setViol("no-failover", fmt.Sprintf("%s: upstream %d was unavailable (%v) and upstream %d was never tried", who, last, failed[last], last+1))
					}
				}
			}
		}
		if last == -1 && r.Err == nil {
			setViol("result-from-nowhere", fmt.Sprintf("%s succeeded without any attempt or cached answer", who))
		}
		// (4) the result is the result of the last attempt
		if r.Err == nil {
			out.Probes["op_ok"]++
			if last >= 0 && len(failed[last]) > 0 && cacheUp != last {
				setViol("success-despite-failure", fmt.Sprintf("%s succeeded although upstream %d answered %v", who, last, failed[last]))
			}
			for _, a := range r.Answers {
				if a.Up != last {
					setViol("answer-from-wrong-upstream", fmt.Sprintf("%s: payload from upstream %d, last upstream tried %d", who, a.Up, last))
				}
			}
		} else {
			out.Probes["op_error"]++
			var fe *promapi.FailoverGroupError
			if !errors.As(r.Err, &fe) {
				setViol("error-not-wrapped", fmt.Sprintf("%s: %T %v", who, r.Err, r.Err))
			} else {
				if fe.IsStrict() != sc.Required {
					setViol("required-flag-lost", fmt.Sprintf("%s: IsStrict()=%v with required=%v", who, fe.IsStrict(), sc.Required))
				}
				if last >= 0 && fe.URI() != uri(last) && !errors.Is(r.Err, promapi.ErrUnsupported) && !sc.PublicURI {
					setViol("error-from-wrong-upstream", fmt.Sprintf("%s: error attributed to %s, last upstream tried %s", who, fe.URI(), uri(last)))
				}
			}
			if last >= 0 && len(failed[last]) > 0 && !errors.Is(r.Err, promapi.ErrUnsupported) {
				match := false
				for _, m := range failed[last] {
					if errMatchesMode(r.Err, m) {
						match = true
					}
				}
				if !match {
					setViol("error-not-returned-as-is", fmt.Sprintf("%s: upstream %d answered %v but the caller got %q", who, last, failed[last], r.Err.Error()))
				}
				// an outage must stay recognisable as one: the warning-instead-of-bug path keys on it
				allMust := true
				for _, m := range failed[last] {
					if class(m) != clsMustFailover {
						allMust = false
					}
				}
				if allMust && !promapi.IsUnavailableError(r.Err) {
					setViol("outage-not-recognised", fmt.Sprintf("%s: every upstream unavailable (%v) but IsUnavailableError is false for %q", who, failed[last], r.Err.Error()))
				}
				if allMust && last == sc.Upstreams-1 {
					out.Probes["all_upstreams_down"]++
				}
			}
			if last >= 0 && len(failed[last]) == 0 && cacheUp == -1 && !errors.Is(r.Err, promapi.ErrUnsupported) {
				setViol("error-despite-success", fmt.Sprintf("%s failed with %q although upstream %d answered", who, r.Err.Error(), last))
			}
		}
		for u, ms := range failed {
			for _, m := range ms {
				if class(m) == clsEither && len(ms) == 1 && u < sc.Upstreams-1 {
					// what pint does with behaviours the property leaves open is recorded, not judged
					if u != last {
						out.Probes["unspecified:"+m+":"+kindNames[r.Op.Kind]+":failover"]++
					} else {
						out.Probes["unspecified:"+m+":"+kindNames[r.Op.Kind]+":no-failover"]++
					}
				}
			}
		}
	}
	out.Digest = digest.Sum64()
	hops := out.Probes["failover_hop"]
	out.Nontrivial = hops > 0
	out.Summary = map[string]any{"ops": len(results), "attempts": len(attempts), "hops": hops}
}

// TestC15Sweep enumerates every assignment of a behaviour to each of up to N
// upstreams for every endpoint: the static layer of the fault space.
func TestC15Sweep(t *testing.T) {
	maxUp := 3
	shard, shards := 0, 1
	fmt.Sscanf(os.Getenv("VERIF_SHARD"), "%d/%d", &shard, &shards)
	rep := &detsim.WorkerReport{Property: "C15", Probes: map[string]int{}, Faults: map[string]int{}, Extra: map[string]int64{}}
	start := time.Now()
	n := 0
	table := map[string]string{}
	var firstViol *detsim.Violation
	var failSc *Scenario
	for ups := 1; ups <= maxUp; ups++ {
		total := 1
		for i := 0; i < ups; i++ {
			total *= len(sweepModes)
		}
		for code := 0; code < total; code++ {
			for kind := 0; kind < 5; kind++ {
				n++
				if (n-1)%shards != shard {
					continue
				}
				sc := Scenario{Upstreams: ups, Required: code%2 == 0, TimeoutS: 1, Callers: [][]Op{{{Kind: kind, Q: -1}}}}
				c := code
				assign := []string{}
				for i := 0; i < ups; i++ {
					m := sweepModes[c%len(sweepModes)]
					c /= len(sweepModes)
					sc.Plan = append(sc.Plan, nil)
					sc.Rest = append(sc.Rest, m)
					assign = append(assign, m)
				}
				out := run(t, sc, false)
				rep.Runs++
				rep.Decisions += int64(out.Sched.Decisions)
				rep.SimNanos += out.SimNanos
				for k, v := range out.Probes {
					rep.Probes[k] += v
				}
				for k, v := range out.Faults {
					rep.Faults[k] += v
				}
				if out.Nontrivial {
					rep.Nontrivial++
				}
				if ups == 1 {
					table[kindNames[kind]+"/"+assign[0]] = fmt.Sprint(out.Summary)
				}
				if len(out.Violations) > 0 && firstViol == nil {
					firstViol = &out.Violations[0]
					cp := sc
					failSc = &cp
				}
			}
		}
	}
	rep.Extra["sweep_total"] = int64(n)
	rep.WallS = time.Since(start).Seconds()
	if firstViol != nil {
		rep.Violation = firstViol
		if ff := os.Getenv("VERIF_FAILFILE"); ff != "" {
			b, _ := jsonMarshal(map[string]any{"property": "C15", "class": firstViol.Class, "detail": firstViol.Detail, "scenario": failSc})
			_ = os.WriteFile(ff, b, 0o644)
			rep.FailFile = ff
		}
	}
	if o := os.Getenv("VERIF_OUT"); o != "" {
		b, _ := jsonMarshal(rep)
		_ = os.WriteFile(o, b, 0o644)
	}
	if firstViol != nil {
		t.Fatalf("%s: %s", firstViol.Class, firstViol.Detail)
	}
}

func jsonMarshal(v any) ([]byte, error) { return json.MarshalIndent(v, "", " ") }
