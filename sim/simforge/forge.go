// Package simforge holds the simulated code-review platforms: stateful,
// in-memory GitHub and GitLab REST servers (stubs) that a pint run talks to
// over simnet. The store is the only durable state; a pint run is a transient
// client that may fail or die half way.
package simforge

import (
	"encoding/json"
	"fmt"
	"io"
	"net/http"
	"regexp"
	"sort"
	"strconv"
	"strings"
	"sync"
	"time"

	"github.com/cloudflare/pint/verifsim/simnet"
)

// Comment is one positioned review comment (GitHub) or the first note of a
// positioned discussion (GitLab).
type Comment struct {
	ID       int64  `json:"id"`
	MR       int    `json:"mr,omitempty"`     // GitLab: merge request the discussion belongs to
	Thread   string `json:"thread,omitempty"` // GitLab discussion id
	Author   int    `json:"author"`
	Path     string `json:"path"`
	Line     int    `json:"line"`
	OldLine  int    `json:"old_line,omitempty"`
	Side     string `json:"side,omitempty"`
	Body     string `json:"body"`
	Commit   string `json:"commit,omitempty"`
	Round    int    `json:"round"`   // run in which it was created (0 = there before pint ever ran)
	Replies  int    `json:"replies"` // GitLab: notes by other users / system notes appended to the thread
	General  bool   `json:"general"` // not attached to a file position
	SysFirst bool   `json:"sys_first,omitempty"`
}

// File of the pull request as the platform presents it.
type File struct {
	Path    string `json:"path"`
	OldPath string `json:"old_path"`
	Patch   string `json:"patch"`
}

// Call is one API request the platform received.
type Call struct {
	N       int
	Round   int
	Method  string
	Path    string
	Op      string // list-files, list-comments, create-comment, delete-comment, ...
	Status  int
	Applied bool // state was changed
	Fault   string
}

// Fault decides what happens to the n-th request of the current run.
type Fault struct {
	Mode string // "", "500", "502", "429", "403-rate", "stall", "refuse-after" (crash: this and all later requests of the run are refused), "lost-ack", "late-ack" (applied, answered too late)
}

const PintUser = 7

// Forge is the state shared by both platform front ends.
type Forge struct {
	mu       sync.Mutex
	Kind     string // "github" | "gitlab"
	Files    []File
	Head     string
	Base     string
	Comments []*Comment
	Reviews  []*Comment // GitHub reviews (body only)
	nextID   int64
	Round    int
	Calls    []Call
	reqInRun int
	// FaultFn is consulted for every request (ordinal within the run, operation name).
	FaultFn func(n int, op string) Fault
	crashed bool
	PerPage int
	MRs     int // GitLab: open merge requests of the source branch (same diff, separate discussions)
	// Yield, when set, is a scheduling point in front of every request: requests that are in flight
	// at the same time are served in the order the scenario's tape decides, not in the order the Go
	// runtime happened to run their goroutines.
	Yield func(point, detail string)
}

func New(kind string) *Forge { return &Forge{Kind: kind, nextID: 100, PerPage: 100, MRs: 1} }

var mrRe = regexp.MustCompile(`/merge_requests/(\d+)/`)

func mrOf(path string) int {
	if m := mrRe.FindStringSubmatch(path); m != nil {
		n, _ := strconv.Atoi(m[1])
		return n
	}
	return 1
}

// BeginRun resets per-run fault state.
func (f *Forge) BeginRun(round int) {
	f.mu.Lock()
	f.Round = round
	f.reqInRun = 0
	f.crashed = false
	f.mu.Unlock()
}

// Snapshot of the stored comments.
func (f *Forge) Snapshot() []Comment {
	f.mu.Lock()
	defer f.mu.Unlock()
	out := make([]Comment, 0, len(f.Comments))
	for _, c := range f.Comments {
		out = append(out, *c)
	}
	return out
}

func (f *Forge) CallsOfRound(round int) []Call {
	f.mu.Lock()
	defer f.mu.Unlock()
	out := []Call{}
	for _, c := range f.Calls {
		if c.Round == round {
			out = append(out, c)
		}
	}
	return out
}

// AddForeign lets another user comment (between pint runs).
func (f *Forge) AddForeign(path string, line int, body string, general bool) {
	f.mu.Lock()
	defer f.mu.Unlock()
	f.nextID++
	mr := 0
	if f.Kind == "gitlab" {
		mr = 1
	}
	f.Comments = append(f.Comments, &Comment{MR: mr, ID: f.nextID, Thread: fmt.Sprintf("d%d", f.nextID), Author: 99, Path: path, Line: line, Side: "RIGHT", Body: body, Round: f.Round, General: general})
}

// ReplyInThread appends a note by somebody else to a discussion (GitLab) - the first note stays pint's.
func (f *Forge) ReplyInThread(id int64) {
	f.mu.Lock()
	defer f.mu.Unlock()
	for _, c := range f.Comments {
		if c.ID == id {
			c.Replies++
		}
	}
}

var hunkRe = regexp.MustCompile(`^@@ -(\d+)(?:,(\d+))? \+(\d+)(?:,(\d+))? @@`)

// lineInDiff: may a comment be attached to this line of this side?
func lineInDiff(patch, side string, line int) bool {
	old, nw := 0, 0
	for _, l := range strings.Split(patch, "\n") {
		if m := hunkRe.FindStringSubmatch(l); m != nil {
			old, _ = strconv.Atoi(m[1])
			nw, _ = strconv.Atoi(m[3])
			continue
		}
		switch {
		case strings.HasPrefix(l, "-"):
			if side == "LEFT" && old == line {
				return true
			}
			old++
		case strings.HasPrefix(l, "+"):
			if side != "LEFT" && nw == line {
				return true
			}
			nw++
		case strings.HasPrefix(l, "\\"):
		default:
			if (side == "LEFT" && old == line) || (side != "LEFT" && nw == line) {
				return true
			}
			old++
			nw++
		}
	}
	return false
}

func (f *Forge) file(path string) *File {
	for i := range f.Files {
		if f.Files[i].Path == path {
			return &f.Files[i]
		}
	}
	return nil
}

// Serve starts the platform on the simulated network.
func (f *Forge) Serve(n *simnet.Net, host string) *http.Server {
	h := n.Listen(host)
	srv := &http.Server{Handler: f}
	go func() { _ = srv.Serve(h.L) }()
	return srv
}

func writeJSON(w http.ResponseWriter, code int, v any) {
	w.Header().Set("Content-Type", "application/json")
	w.WriteHeader(code)
	_ = json.NewEncoder(w).Encode(v)
}

func (f *Forge) ServeHTTP(w http.ResponseWriter, r *http.Request) {
	body, _ := io.ReadAll(r.Body)
	if f.Yield != nil {
		f.Yield("forge", r.Method+" "+r.URL.Path)
	}
	op, handler := f.route(r)
	f.mu.Lock()
	n := f.reqInRun
	f.reqInRun++
	var flt Fault
	if f.FaultFn != nil {
		flt = f.FaultFn(n, op)
	}
	if f.crashed {
		flt = Fault{Mode: "refuse-after"}
	}
	call := Call{N: n, Round: f.Round, Method: r.Method, Path: r.URL.Path, Op: op, Fault: flt.Mode}
	round := f.Round
	f.mu.Unlock()
	record := func(status int, applied bool) {
		call.Status = status
		call.Applied = applied
		f.mu.Lock()
		f.Calls = append(f.Calls, call)
		f.mu.Unlock()
	}
	_ = round
	switch flt.Mode {
	case "500", "502":
		code, _ := strconv.Atoi(flt.Mode)
		record(code, false)
		w.WriteHeader(code)
		_, _ = w.Write([]byte(`{"message":"injected server error"}`))
		return
	case "429":
		record(429, false)
		w.Header().Set("Retry-After", "30")
		w.Header().Set("RateLimit-Reset", strconv.FormatInt(time.Now().Add(30*time.Second).Unix(), 10))
		w.WriteHeader(429)
		_, _ = w.Write([]byte(`{"message":"429 Too Many Requests"}`))
		return
	case "403-rate":
		record(403, false)
		w.Header().Set("X-RateLimit-Limit", "5000")
		w.Header().Set("X-RateLimit-Remaining", "0")
		w.Header().Set("X-RateLimit-Reset", strconv.FormatInt(time.Now().Add(20*time.Second).Unix(), 10))
		w.Header().Set("Content-Type", "application/json")
		w.WriteHeader(403)
		_, _ = w.Write([]byte(`{"message":"API rate limit exceeded","documentation_url":"https://docs.github.com/rest/overview/resources-in-the-rest-api#rate-limiting"}`))
		return
	case "garbage":
		record(200, false)
		w.Header().Set("Content-Type", "application/json")
		w.WriteHeader(200)
		_, _ = w.Write([]byte(`{"id": 7, "userna`))
		return
	case "stall":
		record(0, false)
		<-r.Context().Done()
		return
	case "refuse-after":
		// the run dies here: nothing it sends from now on reaches the store
		f.mu.Lock()
		f.crashed = true
		f.mu.Unlock()
		record(0, false)
		if hj, ok := w.(http.Hijacker); ok {
			if c, _, err := hj.Hijack(); err == nil {
				_ = c.Close()
			}
		}
		return
	}
	if handler == nil {
		record(404, false)
		writeJSON(w, 404, map[string]string{"message": "Not Found: " + r.Method + " " + r.URL.Path})
		return
	}
	status, payload, applied, hdr := handler(r, body)
	record(status, applied)
	if flt.Mode == "late-ack" {
		// applied at once, answered only after the client has given up waiting
		select {
		case <-time.After(90 * time.Second):
		case <-r.Context().Done():
		}
		return
	}
	if flt.Mode == "lost-ack" {
		// applied, but the client never learns it
		if hj, ok := w.(http.Hijacker); ok {
			if c, _, err := hj.Hijack(); err == nil {
				_ = c.Close()
			}
		}
		return
	}
	for k, v := range hdr {
		w.Header().Set(k, v)
	}
	if status == 204 {
		w.WriteHeader(204)
		return
	}
	writeJSON(w, status, payload)
}

type handlerFn func(r *http.Request, body []byte) (status int, payload any, applied bool, hdr map[string]string)

var (
	ghFiles    = regexp.MustCompile(`^/api/v3/repos/[^/]+/[^/]+/pulls/\d+/files$`)
	ghComments = regexp.MustCompile(`^/api/v3/repos/[^/]+/[^/]+/pulls/\d+/comments$`)
	ghReviews  = regexp.MustCompile(`^/api/v3/repos/[^/]+/[^/]+/pulls/\d+/reviews$`)
	ghReview   = regexp.MustCompile(`^/api/v3/repos/[^/]+/[^/]+/pulls/\d+/reviews/(\d+)$`)
	ghIssueCom = regexp.MustCompile(`^/api/v3/repos/[^/]+/[^/]+/issues/\d+/comments$`)

	glUser     = regexp.MustCompile(`^/api/v4/user$`)
	glMRs      = regexp.MustCompile(`^/api/v4/projects/\d+/merge_requests$`)
	glVersions = regexp.MustCompile(`^/api/v4/projects/\d+/merge_requests/\d+/versions$`)
	glDiffs    = regexp.MustCompile(`^/api/v4/projects/\d+/merge_requests/\d+/diffs$`)
	glDiscs    = regexp.MustCompile(`^/api/v4/projects/\d+/merge_requests/\d+/discussions$`)
	glNote     = regexp.MustCompile(`^/api/v4/projects/\d+/merge_requests/\d+/discussions/([^/]+)/notes/(\d+)$`)
)

func (f *Forge) route(r *http.Request) (string, handlerFn) {
	p := r.URL.Path
	switch {
	case f.Kind == "github" && ghFiles.MatchString(p) && r.Method == "GET":
		return "list-files", f.ghListFiles
	case f.Kind == "github" && ghComments.MatchString(p) && r.Method == "GET":
		return "list-comments", f.ghListComments
	case f.Kind == "github" && ghComments.MatchString(p) && r.Method == "POST":
		return "create-comment", f.ghCreateComment
	case f.Kind == "github" && ghReviews.MatchString(p) && r.Method == "GET":
		return "list-reviews", f.ghListReviews
	case f.Kind == "github" && ghReviews.MatchString(p) && r.Method == "POST":
		return "create-review", f.ghCreateReview
	case f.Kind == "github" && ghReview.MatchString(p) && r.Method == "PUT":
		return "update-review", f.ghUpdateReview
	case f.Kind == "github" && ghIssueCom.MatchString(p) && r.Method == "POST":
		return "general-comment", f.ghGeneralComment
	case f.Kind == "github" && ghIssueCom.MatchString(p) && r.Method == "GET":
		return "list-general-comments", func(*http.Request, []byte) (int, any, bool, map[string]string) {
			f.mu.Lock()
			defer f.mu.Unlock()
			out := []map[string]any{}
			for _, c := range f.Comments {
				if c.General {
					out = append(out, map[string]any{"id": c.ID, "body": c.Body, "user": map[string]any{"id": c.Author}})
				}
			}
			return 200, out, false, nil
		}
	case f.Kind == "gitlab" && glUser.MatchString(p):
		return "user", func(*http.Request, []byte) (int, any, bool, map[string]string) {
			return 200, map[string]any{"id": PintUser, "username": "pint"}, false, nil
		}
	case f.Kind == "gitlab" && glMRs.MatchString(p):
		return "list-mrs", func(*http.Request, []byte) (int, any, bool, map[string]string) {
			out := []map[string]any{}
			for i := 1; i <= f.MRs; i++ {
				out = append(out, map[string]any{"id": i, "iid": i, "state": "opened"})
			}
			return 200, out, false, nil
		}
	case f.Kind == "gitlab" && glVersions.MatchString(p):
		return "versions", func(*http.Request, []byte) (int, any, bool, map[string]string) {
			f.mu.Lock()
			defer f.mu.Unlock()
			return 200, []map[string]any{{"id": 1, "head_commit_sha": f.Head, "base_commit_sha": f.Base, "start_commit_sha": f.Base, "state": "collected"}}, false, nil
		}
	case f.Kind == "gitlab" && glDiffs.MatchString(p):
		return "list-files", f.glListDiffs
	case f.Kind == "gitlab" && glDiscs.MatchString(p) && r.Method == "GET":
		return "list-comments", f.glListDiscussions
	case f.Kind == "gitlab" && glDiscs.MatchString(p) && r.Method == "POST":
		return "create-comment", f.glCreateDiscussion
	case f.Kind == "gitlab" && glNote.MatchString(p) && r.Method == "DELETE":
		return "delete-comment", f.glDeleteNote
	}
	return "unknown", nil
}

// ---- GitHub ----

// ghPage cuts a GitHub listing the way api.github.com does: `per_page` (default 30, at most 100) items starting
// at `page` (default 1), and a Link header naming the next and last page while there is one.
func ghPage(r *http.Request, items []map[string]any) ([]map[string]any, map[string]string) {
	per, page := 30, 1
	if v, err := strconv.Atoi(r.URL.Query().Get("per_page")); err == nil && v > 0 {
		per = min(v, 100)
	}
	if v, err := strconv.Atoi(r.URL.Query().Get("page")); err == nil && v > 0 {
		page = v
	}
	from := (page - 1) * per
	if from >= len(items) {
		return []map[string]any{}, nil
	}
	to := min(from+per, len(items))
	var hdr map[string]string
	if to < len(items) {
		last := (len(items) + per - 1) / per
		u := *r.URL
		q := u.Query()
		q.Set("per_page", strconv.Itoa(per))
		q.Set("page", strconv.Itoa(page+1))
		u.RawQuery = q.Encode()
		next := "http://" + r.Host + u.String()
		q.Set("page", strconv.Itoa(last))
		u.RawQuery = q.Encode()
		hdr = map[string]string{"Link": fmt.Sprintf("<%s>; rel=\"next\", <%s>; rel=\"last\"", next, "http://"+r.Host+u.String())}
	}
	return items[from:to], hdr
}

func (f *Forge) ghListFiles(r *http.Request, _ []byte) (int, any, bool, map[string]string) {
	f.mu.Lock()
	defer f.mu.Unlock()
	out := []map[string]any{}
	for _, fl := range f.Files {
		out = append(out, map[string]any{"filename": fl.Path, "previous_filename": fl.OldPath, "patch": fl.Patch, "status": "modified"})
	}
	pg, hdr := ghPage(r, out)
	return 200, pg, false, hdr
}

func ghComment(c *Comment) map[string]any {
	m := map[string]any{"id": c.ID, "path": c.Path, "body": c.Body, "side": c.Side, "commit_id": c.Commit, "user": map[string]any{"id": c.Author}}
	if c.Line > 0 {
		m["line"] = c.Line
	}
	return m
}

func (f *Forge) ghListComments(r *http.Request, _ []byte) (int, any, bool, map[string]string) {
	f.mu.Lock()
	defer f.mu.Unlock()
	out := []map[string]any{}
	for _, c := range f.Comments {
		if c.General {
			continue
		}
		out = append(out, ghComment(c))
	}
	pg, hdr := ghPage(r, out)
	return 200, pg, false, hdr
}

func (f *Forge) ghCreateComment(_ *http.Request, body []byte) (int, any, bool, map[string]string) {
	var req struct {
		CommitID string `json:"commit_id"`
		Path     string `json:"path"`
		Body     string `json:"body"`
		Line     int    `json:"line"`
		Side     string `json:"side"`
	}
	if err := json.Unmarshal(body, &req); err != nil {
		return 400, map[string]string{"message": "Problems parsing JSON"}, false, nil
	}
	f.mu.Lock()
	defer f.mu.Unlock()
	fl := f.file(req.Path)
	if fl == nil || !lineInDiff(fl.Patch, req.Side, req.Line) {
		return 422, map[string]any{"message": "Validation Failed", "errors": []map[string]string{{"resource": "PullRequestReviewComment", "code": "custom", "field": "pull_request_review_thread.line", "message": "pull_request_review_thread.line must be part of the diff"}}}, false, nil
	}
	f.nextID++
	// GitHub normalises comment bodies: surrounding whitespace does not survive
	c := &Comment{ID: f.nextID, Author: PintUser, Path: req.Path, Line: req.Line, Side: req.Side, Body: strings.TrimSpace(req.Body), Commit: req.CommitID, Round: f.Round}
	f.Comments = append(f.Comments, c)
	return 201, ghComment(c), true, nil
}

func (f *Forge) ghListReviews(*http.Request, []byte) (int, any, bool, map[string]string) {
	f.mu.Lock()
	defer f.mu.Unlock()
	out := []map[string]any{}
	for _, r := range f.Reviews {
		out = append(out, map[string]any{"id": r.ID, "body": r.Body, "user": map[string]any{"id": r.Author}})
	}
	return 200, out, false, nil
}

func (f *Forge) ghCreateReview(_ *http.Request, body []byte) (int, any, bool, map[string]string) {
	var req struct {
		Body string `json:"body"`
	}
	_ = json.Unmarshal(body, &req)
	f.mu.Lock()
	defer f.mu.Unlock()
	f.nextID++
	r := &Comment{ID: f.nextID, Author: PintUser, Body: req.Body, Round: f.Round, General: true}
	f.Reviews = append(f.Reviews, r)
	return 200, map[string]any{"id": r.ID, "body": r.Body}, true, nil
}

func (f *Forge) ghUpdateReview(r *http.Request, body []byte) (int, any, bool, map[string]string) {
	var req struct {
		Body string `json:"body"`
	}
	_ = json.Unmarshal(body, &req)
	id, _ := strconv.ParseInt(ghReview.FindStringSubmatch(r.URL.Path)[1], 10, 64)
	f.mu.Lock()
	defer f.mu.Unlock()
	for _, rv := range f.Reviews {
		if rv.ID == id {
			rv.Body = req.Body
			return 200, map[string]any{"id": rv.ID, "body": rv.Body}, true, nil
		}
	}
	return 404, map[string]string{"message": "Not Found"}, false, nil
}

func (f *Forge) ghGeneralComment(_ *http.Request, body []byte) (int, any, bool, map[string]string) {
	var req struct {
		Body string `json:"body"`
	}
	_ = json.Unmarshal(body, &req)
	f.mu.Lock()
	defer f.mu.Unlock()
	f.nextID++
	c := &Comment{ID: f.nextID, Author: PintUser, Body: req.Body, Round: f.Round, General: true}
	f.Comments = append(f.Comments, c)
	return 201, map[string]any{"id": c.ID, "body": c.Body}, true, nil
}

// ---- GitLab ----

func (f *Forge) glListDiffs(r *http.Request, _ []byte) (int, any, bool, map[string]string) {
	f.mu.Lock()
	defer f.mu.Unlock()
	out := []map[string]any{}
	for _, fl := range f.Files {
		op := fl.OldPath
		if op == "" {
			op = fl.Path
		}
		out = append(out, map[string]any{"old_path": op, "new_path": fl.Path, "diff": fl.Patch, "a_mode": "100644", "b_mode": "100644"})
	}
	pg, hdr := f.glPage(r, out)
	return 200, pg, false, hdr
}

func (f *Forge) glListDiscussions(r *http.Request, _ []byte) (int, any, bool, map[string]string) {
	f.mu.Lock()
	defer f.mu.Unlock()
	all := []map[string]any{}
	mr := mrOf(r.URL.Path)
	for _, c := range f.Comments {
		if f.Kind == "gitlab" && c.MR != mr {
			continue
		}
		note := map[string]any{"id": c.ID, "body": c.Body, "system": false, "author": map[string]any{"id": c.Author, "username": fmt.Sprintf("u%d", c.Author)}, "type": "DiffNote"}
		if !c.General {
			pos := map[string]any{"base_sha": f.Base, "head_sha": c.Commit, "start_sha": f.Base, "position_type": "text", "new_path": c.Path, "old_path": c.Path}
			if c.Line > 0 {
				pos["new_line"] = c.Line
			}
			if c.OldLine > 0 {
				pos["old_line"] = c.OldLine
			}
			note["position"] = pos
		}
		notes := []map[string]any{note}
		for i := 0; i < c.Replies; i++ {
			notes = append(notes, map[string]any{"id": c.ID*1000 + int64(i), "body": "a reply by a human", "system": i%2 == 1, "author": map[string]any{"id": 99, "username": "human"}})
		}
		all = append(all, map[string]any{"id": c.Thread, "individual_note": false, "notes": notes})
	}
	pg, hdr := f.glPage(r, all)
	return 200, pg, false, hdr
}

// glPage cuts a GitLab listing into pages (offset pagination with the X-* headers); the page size is the
// scenario's unless the request names one.
func (f *Forge) glPage(r *http.Request, all []map[string]any) ([]map[string]any, map[string]string) {
	page, _ := strconv.Atoi(r.URL.Query().Get("page"))
	if page < 1 {
		page = 1
	}
	per := f.PerPage
	if v, err := strconv.Atoi(r.URL.Query().Get("per_page")); err == nil && v > 0 && v < per {
		per = v
	}
	lo := (page - 1) * per
	hi := lo + per
	if lo > len(all) {
		lo = len(all)
	}
	if hi > len(all) {
		hi = len(all)
	}
	hdr := map[string]string{"X-Page": strconv.Itoa(page), "X-Per-Page": strconv.Itoa(per), "X-Total": strconv.Itoa(len(all)), "X-Total-Pages": strconv.Itoa((len(all) + per - 1) / per)}
	if hi < len(all) {
		hdr["X-Next-Page"] = strconv.Itoa(page + 1)
	}
	return all[lo:hi], hdr
}

func (f *Forge) glCreateDiscussion(r *http.Request, body []byte) (int, any, bool, map[string]string) {
	var req struct {
		Body     string `json:"body"`
		Position *struct {
			BaseSHA  string `json:"base_sha"`
			HeadSHA  string `json:"head_sha"`
			StartSHA string `json:"start_sha"`
			NewPath  string `json:"new_path"`
			OldPath  string `json:"old_path"`
			NewLine  int    `json:"new_line"`
			OldLine  int    `json:"old_line"`
			Type     string `json:"position_type"`
		} `json:"position"`
	}
	if err := json.Unmarshal(body, &req); err != nil {
		return 400, map[string]string{"message": "400 Bad request"}, false, nil
	}
	f.mu.Lock()
	defer f.mu.Unlock()
	f.nextID++
	c := &Comment{MR: mrOf(r.URL.Path), ID: f.nextID, Thread: fmt.Sprintf("d%d", f.nextID), Author: PintUser, Body: req.Body, Round: f.Round}
	if req.Position == nil {
		c.General = true
	} else {
		if f.file(req.Position.NewPath) == nil {
			return 400, map[string]any{"message": "400 Bad request - Note {:line_code=>[\"can't be blank\", \"must be a valid line code\"]}"}, false, nil
		}
		c.Path = req.Position.NewPath
		c.Line = req.Position.NewLine
		c.OldLine = req.Position.OldLine
		c.Commit = req.Position.HeadSHA
	}
	f.Comments = append(f.Comments, c)
	return 201, map[string]any{"id": c.Thread, "notes": []map[string]any{{"id": c.ID, "body": c.Body}}}, true, nil
}

func (f *Forge) glDeleteNote(r *http.Request, _ []byte) (int, any, bool, map[string]string) {
	m := glNote.FindStringSubmatch(r.URL.Path)
	id, _ := strconv.ParseInt(m[2], 10, 64)
	f.mu.Lock()
	defer f.mu.Unlock()
	for i, c := range f.Comments {
		if c.ID == id && c.Thread == m[1] && c.MR == mrOf(r.URL.Path) {
			if c.Replies > 0 {
				// the thread survives with the other people's notes; its first note is now theirs
				c.Author = 99
				c.Body = "a reply by a human"
				c.Replies--
				return 204, nil, true, nil
			}
			f.Comments = append(f.Comments[:i:i], f.Comments[i+1:]...)
			return 204, nil, true, nil
		}
	}
	return 404, map[string]string{"message": "404 Not found"}, false, nil
}

// SortedIDs helps tests print stable descriptions.
func SortedIDs(cs []Comment) []int64 {
	ids := []int64{}
	for _, c := range cs {
		ids = append(ids, c.ID)
	}
	sort.Slice(ids, func(i, j int) bool { return ids[i] < ids[j] })
	return ids
}
