package detsim

import (
	"hash/fnv"
	"os"
	"runtime"
	"sort"
	"strings"
	"sync"
	"sync/atomic"
	"testing/synctest"
	"time"
)

// Ordering of the parked set before the tape indexes into it.
const (
	OrderByKey  = 0 // lexicographic by key: index i is "the i-th task by identity"
	OrderOldest = 1 // longest parked first: tape entry 0 == FIFO, non-zero == pre-emption
	OrderNewest = 2 // most recently parked first: depth-first flavour
)

// SchedConfig is the part of a scenario that decides every scheduling choice.
// It is plain data so it can be drawn by rapid before the bubble is entered,
// shrunk, and written to a replay file.
type SchedConfig struct {
	Tape   []uint16 `json:"tape"`             // choice i = Tape[i] % len(parked); 0 when exhausted
	Order  int      `json:"order"`            // OrderByKey / OrderOldest / OrderNewest
	Starve string   `json:"starve,omitempty"` // tasks whose key contains this run only when nothing else can
	Free   bool     `json:"free,omitempty"`   // free-running: yields return at once (race-detector auxiliary runs)
	// Pauses: before decision At the scheduler releases nobody for Ns of simulated time.
	// Simulated time only moves while nothing is parked or runnable, so without this a parked
	// task (a response about to be written, a job about to start) always wins against every
	// timer; a pause lets deadlines, tickers and back-offs fire first - "this step was slow".
	Pauses []Pause `json:"pauses,omitempty"`
}

type Pause struct {
	At int   `json:"at"`
	Ns int64 `json:"ns"`
}

type waiter struct {
	key string
	age int // decision number when it parked
	arr int // arrival ordinal (racy inside one window; last tie-break only)
	ch  chan struct{}
}

// Sched is the cooperative parking scheduler. Exactly one parked task is
// released per decision, after every other goroutine of the bubble is durably
// blocked.
type Sched struct {
	mu        sync.Mutex
	cfg       SchedConfig
	parked    []*waiter
	nudge     chan struct{}
	stop      chan struct{}
	stopped   bool
	finished  chan struct{}
	pos       int
	arrivals  int
	decisions int
	trace     uint64 // running FNV-1a over released keys
	seq       atomic.Int64
	names     map[uint64]string
	pinned    map[uint64]bool
	record    bool
	log       []string
	states    map[uint64]struct{} // distinct parked-set hashes seen at decisions (may be shared across runs)
	tieCount  int                 // decisions at which the chosen key was not unique among parked
	preempts  int                 // non-zero effective choices
	maxParked int
	pauses    int
}

func NewSched(cfg SchedConfig, record bool, states map[uint64]struct{}) *Sched {
	if states == nil {
		states = map[uint64]struct{}{}
	}
	cfg.Pauses = append([]Pause(nil), cfg.Pauses...) // consumed while running: never touch the scenario's own copy
	if os.Getenv("VERIF_FREE") != "" {
		// auxiliary race-detector executions: same scenarios, scheduler switched off
		cfg.Free = true
	}
	return &Sched{
		cfg:      cfg,
		nudge:    make(chan struct{}, 1),
		stop:     make(chan struct{}),
		finished: make(chan struct{}),
		names:    map[uint64]string{},
		pinned:   map[uint64]bool{},
		record:   record,
		states:   states,
		trace:    14695981039346656037,
	}
}

func goid() uint64 {
	var buf [40]byte
	n := runtime.Stack(buf[:], false)
	// "goroutine 123 [running]:..."
	var id uint64
	for _, c := range buf[10:n] {
		if c < '0' || c > '9' {
			break
		}
		id = id*10 + uint64(c-'0')
	}
	return id
}

// Name pins a stable identity to the calling goroutine (harness tasks).
func (s *Sched) Name(name string) {
	g := goid()
	s.mu.Lock()
	s.names[g] = name
	s.pinned[g] = true
	s.mu.Unlock()
}

func (s *Sched) autoName(name string) {
	g := goid()
	s.mu.Lock()
	if !s.pinned[g] {
		s.names[g] = name
	}
	s.mu.Unlock()
}

func (s *Sched) nameOf() string {
	g := goid()
	s.mu.Lock()
	n, ok := s.names[g]
	s.mu.Unlock()
	if !ok {
		return "anon"
	}
	return n
}

// Seq returns the next global event sequence number. Events are stamped with
// it (never with simulated time, under which operations tie).
func (s *Sched) Seq() int64 { return s.seq.Add(1) }

// Mix folds harness-visible observations into the trace hash so that the
// determinism self-test also covers what tasks saw, not only who ran.
func (s *Sched) Mix(str string) {
	s.mu.Lock()
	s.mixLocked(str)
	s.mu.Unlock()
}

func (s *Sched) mixLocked(str string) {
	h := s.trace
	for i := 0; i < len(str); i++ {
		h ^= uint64(str[i])
		h *= 1099511628211
	}
	h ^= 0xff
	h *= 1099511628211
	s.trace = h
}

// Yield parks the calling goroutine until the scheduler releases it.
// Never call it while holding a sync.Mutex.
func (s *Sched) Yield(point, detail string) {
	if s.cfg.Free {
		runtime.Gosched()
		return
	}
	w := &waiter{key: point + "|" + detail, ch: make(chan struct{})}
	s.mu.Lock()
	if s.stopped {
		s.mu.Unlock()
		return
	}
	w.age = s.decisions
	w.arr = s.arrivals
	s.arrivals++
	s.parked = append(s.parked, w)
	s.mu.Unlock()
	select {
	case s.nudge <- struct{}{}:
	default:
	}
	<-w.ch
}

// HookYield is what verifhook.Yield points at: it also names anonymous pint
// goroutines after the last instrumented point they passed.
func (s *Sched) HookYield(point, detail string) {
	if !s.cfg.Free {
		s.autoName(point + "|" + detail)
	}
	s.Yield(point, detail)
}

type simLocker struct {
	s     *Sched
	inner sync.Locker
}

func (l *simLocker) Lock() {
	if !l.s.cfg.Free {
		l.s.Yield("lock", l.s.nameOf())
	}
	l.inner.Lock()
}

func (l *simLocker) Unlock() { l.inner.Unlock() }

// WrapLocker makes every acquisition (including the re-acquisition inside
// sync.Cond.Wait) a scheduling point.
func (s *Sched) WrapLocker(l sync.Locker) sync.Locker { return &simLocker{s: s, inner: l} }

// Start launches the scheduler goroutine. Must be called inside the bubble.
func (s *Sched) Start() {
	if s.cfg.Free {
		close(s.finished)
		return
	}
	go s.loop()
}

// Stop ends scheduling: everything parked is released and later yields return
// immediately (teardown runs free).
func (s *Sched) Stop() {
	if s.cfg.Free {
		return
	}
	s.mu.Lock()
	if !s.stopped {
		s.stopped = true
		close(s.stop)
	}
	s.mu.Unlock()
	<-s.finished
}

func (s *Sched) loop() {
	defer close(s.finished)
	for {
		synctest.Wait()
		s.mu.Lock()
		if s.stopped {
			for _, w := range s.parked {
				close(w.ch)
			}
			s.parked = nil
			s.mu.Unlock()
			return
		}
		if len(s.parked) == 0 {
			s.mu.Unlock()
			select {
			case <-s.nudge:
			case <-s.stop:
			}
			continue
		}
		if d := s.pauseDueLocked(); d > 0 {
			s.mixLocked("pause")
			s.pauses++
			s.mu.Unlock()
			select {
			case <-time.After(time.Duration(d)):
			case <-s.stop:
			}
			continue
		}
		w := s.pickLocked()
		s.mu.Unlock()
		close(w.ch)
	}
}

// pauseDueLocked returns the length of a not yet taken pause scheduled for the current decision.
func (s *Sched) pauseDueLocked() int64 {
	for i := range s.cfg.Pauses {
		p := &s.cfg.Pauses[i]
		if p.At == s.decisions && p.Ns > 0 {
			d := p.Ns
			p.Ns = 0
			return d
		}
	}
	return 0
}

func (s *Sched) pickLocked() *waiter {
	p := s.parked
	if len(p) > s.maxParked {
		s.maxParked = len(p)
	}
	switch s.cfg.Order {
	case OrderOldest:
		sort.SliceStable(p, func(i, j int) bool {
			if p[i].age != p[j].age {
				return p[i].age < p[j].age
			}
			if p[i].key != p[j].key {
				return p[i].key < p[j].key
			}
			return p[i].arr < p[j].arr
		})
	case OrderNewest:
		sort.SliceStable(p, func(i, j int) bool {
			if p[i].age != p[j].age {
				return p[i].age > p[j].age
			}
			if p[i].key != p[j].key {
				return p[i].key < p[j].key
			}
			return p[i].arr < p[j].arr
		})
	default:
		sort.SliceStable(p, func(i, j int) bool {
			if p[i].key != p[j].key {
				return p[i].key < p[j].key
			}
			if p[i].age != p[j].age {
				return p[i].age < p[j].age
			}
			return p[i].arr < p[j].arr
		})
	}
	// state hash: multiset of parked keys (order independent of sort mode)
	{
		var acc uint64
		for _, w := range p {
			h := fnv.New64a()
			h.Write([]byte(w.key))
			acc += h.Sum64() * 0x9e3779b97f4a7c15
		}
		s.states[acc] = struct{}{}
	}
	n := len(p)
	if s.cfg.Starve != "" {
		// move starved tasks to the back; only eligible prefix is indexable
		sort.SliceStable(p, func(i, j int) bool {
			return !strings.Contains(p[i].key, s.cfg.Starve) && strings.Contains(p[j].key, s.cfg.Starve)
		})
		m := 0
		for m < n && !strings.Contains(p[m].key, s.cfg.Starve) {
			m++
		}
		if m > 0 {
			n = m
		}
	}
	idx := 0
	if s.pos < len(s.cfg.Tape) {
		idx = int(s.cfg.Tape[s.pos]) % n
	}
	s.pos++
	if idx != 0 {
		s.preempts++
	}
	w := p[idx]
	for i := range p {
		if i != idx && p[i].key == w.key {
			s.tieCount++
			break
		}
	}
	s.parked = append(p[:idx:idx], p[idx+1:]...)
	s.decisions++
	s.mixLocked(w.key)
	if s.record && len(s.log) < 20000 {
		s.log = append(s.log, w.key)
	}
	return w
}

// Stats of one run.
type SchedStats struct {
	Decisions int      `json:"decisions"`
	Trace     uint64   `json:"trace"`
	Ties      int      `json:"ties"`
	Preempts  int      `json:"preempts"`
	MaxParked int      `json:"max_parked"`
	TapeUsed  int      `json:"tape_used"`
	Pauses    int      `json:"pauses"`
	Log       []string `json:"log,omitempty"`
}

func (s *Sched) Stats() SchedStats {
	s.mu.Lock()
	defer s.mu.Unlock()
	return SchedStats{
		Decisions: s.decisions, Trace: s.trace, Ties: s.tieCount, Preempts: s.preempts,
		MaxParked: s.maxParked, TapeUsed: s.pos, Pauses: s.pauses, Log: s.log,
	}
}

func (s *Sched) Decisions() int {
	s.mu.Lock()
	defer s.mu.Unlock()
	return s.decisions
}
