package detsim

import (
	"encoding/json"
	"fmt"
	"os"
	"regexp"
	"sort"
	"strconv"
	"strings"
	"testing"
	"testing/synctest"
	"time"

	"pgregory.net/rapid"
)

// Violation is what an oracle reports. Class is stable across shrinking (it
// is the only thing rapid compares); Detail is for humans.
type Violation struct {
	Class  string `json:"class"`
	Detail string `json:"detail"`
}

// Outcome of one simulated run.
type Outcome struct {
	// Violations holds at most one entry per class (the first seen). The first
	// entry that is not a listed known finding is the run's verdict.
	Violations []Violation    `json:"violations,omitempty"`
	Sched      SchedStats     `json:"sched"`
	SimNanos   int64          `json:"sim_ns"`
	Probes     map[string]int `json:"probes,omitempty"`
	Faults     map[string]int `json:"faults,omitempty"` // fired, by kind
	Nontrivial bool           `json:"nontrivial"`
	// Digest is an extra hash of what the run observed (results, histories); it
	// is compared by the determinism self-test together with the trace hash.
	Digest  uint64 `json:"digest"`
	Summary any    `json:"summary,omitempty"`
	// Poisoned: the code under test did not come back (a hang inside an in-process command), so
	// process-wide state it owns - metric registries, leaked goroutines - is no longer that of a
	// fresh process. The violation is reported as found, without minimisation: every further run
	// in this process would be judged on a state no real execution starts from.
	Poisoned bool `json:"poisoned,omitempty"`
}

// AddViolation records a violation (first detail per class wins).
func (o *Outcome) AddViolation(class, detail string) {
	for _, v := range o.Violations {
		if v.Class == class {
			return
		}
	}
	o.Violations = append(o.Violations, Violation{Class: class, Detail: detail})
}

type knownFinding struct {
	Cls   string `json:"cls"`
	Match string `json:"match"`
	What  string `json:"what"`
	re    *regexp.Regexp
}

func loadKnown() []knownFinding {
	var k []knownFinding
	if v := os.Getenv("VERIF_KNOWN"); v != "" {
		if err := json.Unmarshal([]byte(v), &k); err != nil {
			panic("VERIF_KNOWN: " + err.Error())
		}
	}
	for i := range k {
		k[i].re = regexp.MustCompile(k[i].Match)
	}
	return k
}

// verdict splits a run's violations into the first unknown one and the known-finding hits.
func verdict(out *Outcome, known []knownFinding) (*Violation, []string) {
	var first *Violation
	var hits []string
	for i := range out.Violations {
		v := &out.Violations[i]
		matched := false
		if ig := os.Getenv("VERIF_IGNORE_CLASSES"); ig != "" {
			// second search of the driver after a failure of this class did not reproduce in a fresh process
			for _, c := range strings.Split(ig, ",") {
				if c == v.Class {
					matched = true
				}
			}
		}
		for _, k := range known {
			if k.Cls == v.Class && k.re.MatchString(v.Detail) {
				hits = append(hits, k.What)
				matched = true
				break
			}
		}
		if !matched && first == nil {
			first = v
		}
	}
	return first, hits
}

// Prop binds a property's scenario generator and simulated run.
type Prop[S any] struct {
	ID   string
	Draw func(t *rapid.T) S
	// Run executes one scenario (it enters the bubble itself via Bubble).
	Run func(t *testing.T, sc S, record bool) *Outcome
}

// Bubble runs body in a synctest bubble and converts the runtime's deadlock
// panic (blocked goroutines left behind) into a return value.
func Bubble(t *testing.T, body func()) (leak string) {
	defer func() {
		if r := recover(); r != nil {
			msg := fmt.Sprint(r)
			if strings.Contains(msg, "deadlock") {
				leak = msg
				return
			}
			panic(r)
		}
	}()
	synctest.Test(t, func(t *testing.T) { body() })
	return ""
}

// WorkerReport is what one OS process writes for the driver.
type WorkerReport struct {
	Property    string           `json:"property"`
	Seed        uint64           `json:"seed"`
	Runs        int              `json:"runs"`
	Nontrivial  int              `json:"nontrivial"`
	Decisions   int64            `json:"decisions"`
	SimNanos    int64            `json:"sim_ns"`
	Probes      map[string]int   `json:"probes"`
	Faults      map[string]int   `json:"faults"`
	TraceHashes []string         `json:"trace_hashes"`     // distinct, nontrivial runs only
	AllTraces   int              `json:"all_trace_hashes"` // distinct over all runs (count)
	States      int              `json:"states"`           // distinct parked-set hashes
	Samples     []any            `json:"samples"`
	Violation   *Violation       `json:"violation,omitempty"`
	FailFile    string           `json:"fail_file,omitempty"`
	FailTrace   string           `json:"fail_trace,omitempty"`
	WallS       float64          `json:"wall_s"`
	TraceLines  []string         `json:"-"`
	Extra       map[string]int64 `json:"extra,omitempty"`
}

// Thorough reports whether the thorough tier is running: generators then draw
// larger scenarios (more callers, commits, rounds, longer tapes).
func Thorough() bool { return os.Getenv("VERIF_TIER") == "thorough" }

// Scale returns quick or thorough depending on the tier.
func Scale(quick, thorough int) int {
	if Thorough() {
		return thorough
	}
	return quick
}

func envInt(name string, def int) int {
	if v := os.Getenv(name); v != "" {
		if n, err := strconv.Atoi(v); err == nil {
			return n
		}
	}
	return def
}

// States is the per-process set of distinct scheduler states, shared by runs.
var States = map[uint64]struct{}{}

// Main is the single entry point of a property's test function.
//
//	VERIF_REPLAY=file     run exactly that scenario (no PRNG) and report
//	VERIF_OUT=file        where the worker report goes
//	VERIF_BUDGET_S=n      wall-clock budget for generating new scenarios
//	VERIF_FAILFILE=file   where the (minimised) failing scenario is written
//	VERIF_TRACEFILE=file  per-run "index trace digest" lines (determinism self-test)
func Main[S any](t *testing.T, p Prop[S]) {
	if f := os.Getenv("VERIF_REPLAY"); f != "" {
		replay(t, p, f)
		return
	}
	start := time.Now()
	budget := time.Duration(envInt("VERIF_BUDGET_S", 20)) * time.Second
	maxRuns := envInt("VERIF_MAX_RUNS", 0)
	failFile := os.Getenv("VERIF_FAILFILE")
	curFile := os.Getenv("VERIF_CURFILE")
	rep := &WorkerReport{Property: p.ID, Probes: map[string]int{}, Faults: map[string]int{}}
	nontrivial := map[uint64]struct{}{}
	all := map[uint64]struct{}{}
	var traceLines []string
	wantTrace := os.Getenv("VERIF_TRACEFILE") != ""
	failing := false
	firstClass := ""
	known := loadKnown()
	rep.Extra = map[string]int64{}

	flush := func() {
		rep.WallS = time.Since(start).Seconds()
		rep.States = len(States)
		rep.AllTraces = len(all)
		for h := range nontrivial {
			rep.TraceHashes = append(rep.TraceHashes, strconv.FormatUint(h, 16))
		}
		sort.Strings(rep.TraceHashes)
		if out := os.Getenv("VERIF_OUT"); out != "" {
			b, _ := json.Marshal(rep)
			_ = os.WriteFile(out, b, 0o644)
		}
		if curFile != "" && os.Getenv("VERIF_FREE") == "" {
			_ = os.Remove(curFile) // kept in race-detector runs: a race is only reported when the test ends
		}
		if wantTrace {
			_ = os.WriteFile(os.Getenv("VERIF_TRACEFILE"), []byte(strings.Join(traceLines, "\n")+"\n"), 0o644)
		}
	}
	defer flush()

	rapid.Check(t, func(rt *rapid.T) {
		if !failing {
			if time.Since(start) > budget || (maxRuns > 0 && rep.Runs >= maxRuns) {
				return
			}
		}
		sc := p.Draw(rt)
		if curFile != "" {
			// written before the run: if the code under test hangs or kills the
			// process, the driver still has the scenario that did it
			b, _ := json.Marshal(map[string]any{"property": p.ID, "test": t.Name(), "class": "crash-or-hang", "detail": "the process died or stopped responding while running this scenario", "scenario": sc})
			_ = os.WriteFile(curFile, b, 0o644)
		}
		out := p.Run(t, sc, false)
		if !failing {
			rep.Runs++
			rep.Decisions += int64(out.Sched.Decisions)
			rep.SimNanos += out.SimNanos
			for k, v := range out.Probes {
				rep.Probes[k] += v
			}
			for k, v := range out.Faults {
				rep.Faults[k] += v
			}
			h := out.Sched.Trace ^ (out.Digest * 0x9e3779b97f4a7c15)
			all[h] = struct{}{}
			if out.Nontrivial {
				rep.Nontrivial++
				nontrivial[h] = struct{}{}
			}
			if wantTrace {
				traceLines = append(traceLines, fmt.Sprintf("%d %016x %016x", rep.Runs, out.Sched.Trace, out.Digest))
			}
			if len(rep.Samples) < 3 && out.Nontrivial {
				rep.Samples = append(rep.Samples, map[string]any{"scenario": sc, "summary": out.Summary})
			}
		}
		v, hits := verdict(out, known)
		if os.Getenv("VERIF_FREE") != "" && v != nil {
			// free-running executions exist for the race detector only: the oracles assume the
			// quiescence the controlled scheduler provides (e.g. that the server has noticed a
			// client going away before the next request arrives) and are not sound without it
			rep.Extra["free_mode_oracle_hits"]++
			v = nil
		}
		if !failing {
			for _, h := range hits {
				rep.Extra["known:"+h]++
				if kf := os.Getenv("VERIF_KNOWNFILE"); kf != "" && rep.Extra["known:"+h] == 1 {
					b, _ := json.MarshalIndent(map[string]any{"property": p.ID, "known": h, "violations": out.Violations, "scenario": sc}, "", " ")
					_ = os.WriteFile(kf, b, 0o644)
				}
			}
		}
		if failing && v != nil && v.Class != firstClass {
			// while minimising, only the class that was found first counts
			v = nil
			for i := range out.Violations {
				if out.Violations[i].Class == firstClass {
					if vv, _ := verdict(&Outcome{Violations: out.Violations[i : i+1]}, known); vv != nil {
						v = vv
					}
				}
			}
		}
		if v != nil {
			if !failing {
				failing = true
				firstClass = v.Class
			}
			rep.Violation = v
			rep.FailTrace = fmt.Sprintf("%016x", out.Sched.Trace)
			if failFile != "" {
				b, _ := json.MarshalIndent(map[string]any{"property": p.ID, "test": t.Name(), "class": v.Class, "detail": v.Detail, "scenario": sc}, "", " ")
				_ = os.WriteFile(failFile, b, 0o644)
				rep.FailFile = failFile
			}
			if out.Poisoned {
				fmt.Printf("violation %s found; the process state is not trustworthy after a hang, reporting without minimisation\n", v.Class)
				flush()
				os.Exit(1)
			}
			rt.Fatalf("%s", v.Class)
		}
	})
}

type replayFile[S any] struct {
	Property string `json:"property"`
	Class    string `json:"class"`
	Detail   string `json:"detail"`
	Scenario S      `json:"scenario"`
}

func replay[S any](t *testing.T, p Prop[S], file string) {
	b, err := os.ReadFile(file)
	if err != nil {
		t.Fatalf("replay: %v", err)
	}
	var rf replayFile[S]
	if err := json.Unmarshal(b, &rf); err != nil {
		t.Fatalf("replay: %v", err)
	}
	out := p.Run(t, rf.Scenario, true)
	res := map[string]any{"property": p.ID, "trace": fmt.Sprintf("%016x", out.Sched.Trace), "digest": fmt.Sprintf("%016x", out.Digest), "outcome": out}
	if o := os.Getenv("VERIF_OUT"); o != "" {
		bb, _ := json.MarshalIndent(res, "", " ")
		_ = os.WriteFile(o, bb, 0o644)
	}
	want := rf.Class
	for _, v := range out.Violations {
		if want == "" || v.Class == want {
			fmt.Printf("REPLAY-VIOLATION property=%s class=%s trace=%016x detail=%s\n", p.ID, v.Class, out.Sched.Trace, v.Detail)
			t.Fail()
			return
		}
	}
	fmt.Printf("REPLAY-OK property=%s trace=%016x\n", p.ID, out.Sched.Trace)
}

var pauseLengths = []int64{int64(time.Millisecond), int64(120 * time.Millisecond), int64(1500 * time.Millisecond), int64(6500 * time.Millisecond), int64(32 * time.Second), int64(125 * time.Second)}

// DrawSchedPauses is DrawSched plus up to three scheduler pauses (see SchedConfig.Pauses).
func DrawSchedPauses(rt *rapid.T, maxTape int) SchedConfig {
	c := DrawSched(rt, maxTape)
	if rapid.IntRange(0, 2).Draw(rt, "pausing") == 0 {
		n := rapid.IntRange(1, 3).Draw(rt, "npauses")
		for i := 0; i < n; i++ {
			c.Pauses = append(c.Pauses, Pause{At: rapid.IntRange(1, 120).Draw(rt, "pauseAt"), Ns: pauseLengths[rapid.IntRange(0, len(pauseLengths)-1).Draw(rt, "pauseLen")] + int64(i)})
		}
	}
	return c
}

// DrawSched draws the scheduling part of a scenario.
func DrawSched(rt *rapid.T, maxTape int) SchedConfig {
	var c SchedConfig
	c.Order = rapid.IntRange(0, 2).Draw(rt, "order")
	style := rapid.IntRange(0, 3).Draw(rt, "tapeStyle")
	n := rapid.IntRange(0, maxTape).Draw(rt, "tapeLen")
	switch style {
	case 0: // FIFO / pure order, no pre-emptions
		n = 0
	case 1: // sparse: a handful of pre-emptions
		c.Tape = make([]uint16, n)
		k := rapid.IntRange(1, 4).Draw(rt, "preempts")
		for i := 0; i < k && n > 0; i++ {
			pos := rapid.IntRange(0, n-1).Draw(rt, "pos")
			c.Tape[pos] = uint16(rapid.IntRange(1, 7).Draw(rt, "val"))
		}
	default: // dense uniform
		c.Tape = make([]uint16, n)
		for i := range c.Tape {
			c.Tape[i] = uint16(rapid.IntRange(0, 11).Draw(rt, "t"))
		}
	}
	if rapid.IntRange(0, 3).Draw(rt, "starving") == 0 {
		// One kind of scheduling point is starved: tasks parked there run only when nothing else can. A task
		// that has looked and is about to act (check, then lock; reply, then store) then waits while everybody
		// else runs as far as they can - the widest window a check-then-act race can get.
		c.Starve = StarvePoints[rapid.IntRange(0, len(StarvePoints)-1).Draw(rt, "starve")]
	}
	return c
}

// StarvePoints are prefixes of scheduling-point keys ("point|detail").
// The lock points carry the file that owns the mutex ("lock|cache.go:57"), so one mutex family can be starved
// while the others run.
var StarvePoints = []string{"lock|cache.go", "lock|failover.go", "lock|prometheus.go", "lock|cache.go", "lock|failover.go", "lock|", "promapi.job|", "promapi.slice|", "promapi.slice.result|", "scan.check|", "scan.report|", "srv.respond|", "forge|"}
