// Package detsim is the deterministic simulation kernel shared by all harnesses.
package detsim
