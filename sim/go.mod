module github.com/cloudflare/pint/verifsim

go 1.26

require (
	github.com/cespare/xxhash/v2 v2.3.0
	github.com/gkampitakis/go-snaps v0.5.11
	github.com/google/go-cmp v0.7.0
	github.com/google/go-github/v71 v71.0.0
	github.com/hashicorp/hcl/v2 v2.23.0
	github.com/klauspost/compress v1.18.0
	github.com/neilotoole/slogt v1.1.0
	github.com/prometheus/client_golang v1.22.0
	github.com/prometheus/client_model v0.6.2
	github.com/prometheus/common v0.62.0
	github.com/prometheus/prometheus v0.303.0
	github.com/prymitive/current v0.1.1
	github.com/rogpeppe/go-internal v1.14.1
	github.com/stretchr/testify v1.10.0
	github.com/urfave/cli/v3 v3.1.1
	github.com/zclconf/go-cty v1.16.2
	gitlab.com/gitlab-org/api/client-go v0.127.0
	go.uber.org/automaxprocs v1.6.0
	go.uber.org/ratelimit v0.3.1
	golang.org/x/oauth2 v0.29.0
	gopkg.in/yaml.v3 v3.0.1
)

require (
	github.com/agext/levenshtein v1.2.1 // indirect
	github.com/apparentlymart/go-textseg/v15 v15.0.0 // indirect
	github.com/benbjohnson/clock v1.3.0 // indirect
	github.com/beorn7/perks v1.0.1 // indirect
	github.com/davecgh/go-spew v1.1.2-0.20180830191138-d8f796af33cc // indirect
	github.com/dennwc/varint v1.0.0 // indirect
	github.com/edsrzf/mmap-go v1.2.0 // indirect
	github.com/facette/natsort v0.0.0-20181210072756-2cd4dd1e2dcb // indirect
	github.com/fatih/color v1.18.0 // indirect
	github.com/gkampitakis/ciinfo v0.3.1 // indirect
	github.com/gkampitakis/go-diff v1.3.2 // indirect
	github.com/go-logr/logr v1.4.2 // indirect
	github.com/go-logr/stdr v1.2.2 // indirect
	github.com/goccy/go-yaml v1.15.13 // indirect
	github.com/gogo/protobuf v1.3.2 // indirect
	github.com/google/go-querystring v1.1.0 // indirect
	github.com/grafana/regexp v0.0.0-20240518133315-a468a5bfb3bc // indirect
	github.com/hashicorp/go-cleanhttp v0.5.2 // indirect
	github.com/hashicorp/go-retryablehttp v0.7.7 // indirect
	github.com/json-iterator/go v1.1.12 // indirect
	github.com/kr/pretty v0.3.1 // indirect
	github.com/kr/text v0.2.0 // indirect
	github.com/kylelemons/godebug v1.1.0 // indirect
	github.com/maruel/natural v1.1.1 // indirect
	github.com/mitchellh/go-wordwrap v0.0.0-20150314170334-ad45545899c7 // indirect
	github.com/modern-go/concurrent v0.0.0-20180306012644-bacd9c7ef1dd // indirect
	github.com/modern-go/reflect2 v1.0.2 // indirect
	github.com/munnerz/goautoneg v0.0.0-20191010083416-a7dc8b61c822 // indirect
	github.com/pmezard/go-difflib v1.0.1-0.20181226105442-5d4384ee4fb2 // indirect
	github.com/prometheus/procfs v0.15.1 // indirect
	github.com/tidwall/gjson v1.18.0 // indirect
	github.com/tidwall/match v1.1.1 // indirect
	github.com/tidwall/pretty v1.2.1 // indirect
	github.com/tidwall/sjson v1.2.5 // indirect
	go.opentelemetry.io/auto/sdk v1.1.0 // indirect
	go.opentelemetry.io/otel v1.35.0 // indirect
	go.opentelemetry.io/otel/metric v1.35.0 // indirect
	go.opentelemetry.io/otel/trace v1.35.0 // indirect
	go.uber.org/atomic v1.11.0 // indirect
	golang.org/x/mod v0.23.0 // indirect
	golang.org/x/sync v0.12.0 // indirect
	golang.org/x/sys v0.30.0 // indirect
	golang.org/x/text v0.23.0 // indirect
	golang.org/x/time v0.10.0 // indirect
	golang.org/x/tools v0.30.0 // indirect
	google.golang.org/protobuf v1.36.6 // indirect
)

require (
	github.com/anishathalye/porcupine v1.3.0
	pgregory.net/rapid v1.3.0
)

require github.com/cloudflare/pint v0.0.0

replace github.com/cloudflare/pint => /repo
