#!/usr/bin/env python3
"""confirm_seeded.py <agent-out-dir> <dest-name>
Independently confirms a seeded change produced by a sub-agent and, if confirmed, stores it under /verif/seeded/<dest-name>/:
  - demo passes on the clean tree, fails with the patch
  - the patched tree compiles and passes the pinned suite (demo removed)
"""
import json, os, re, shutil, subprocess, sys, tempfile
src, dest = os.path.abspath(sys.argv[1]), sys.argv[2]
meta = json.load(open(os.path.join(src, "meta.json")))
env = dict(os.environ, GOFLAGS="-mod=mod", GOPROXY="off")
wt = tempfile.mkdtemp(prefix="cs.", dir="/tmp"); os.rmdir(wt)
subprocess.check_call(["git", "-C", "/repo", "worktree", "add", "-q", wt, "HEAD"])
ran = []
def sh(cmd, **kw):
    r = subprocess.run(cmd, shell=True, cwd=wt, env=env, stdout=subprocess.PIPE, stderr=subprocess.STDOUT, text=True, **kw)
    ran.append(dict(cmd=cmd, exit=r.returncode, tail=r.stdout[-600:]))
    return r
try:
    placed = []
    for name, where in (meta.get("demo_files") or {}).items():
        m = re.search(r"([\w./-]+\.go)", where)
        path = m.group(1) if m else None
        if path and not os.path.basename(path) == name and path.endswith("/"):
            path = os.path.join(path, name)
        if not path:
            print("cannot place demo file", name, where); sys.exit(3)
        os.makedirs(os.path.join(wt, os.path.dirname(path)), exist_ok=True)
        shutil.copy(os.path.join(src, name), os.path.join(wt, path)); placed.append(path)
    if not placed:
        for m in re.finditer(r"cp\s+(\S+)\s+(\S+\.go)", meta["demo_cmd"]):
            name, path = os.path.basename(m.group(1)), m.group(2)
            os.makedirs(os.path.join(wt, os.path.dirname(path)), exist_ok=True)
            shutil.copy(os.path.join(src, name), os.path.join(wt, path)); placed.append(path)
    demo = meta["demo_cmd"]
    demo = demo.split("&&")[-1].strip() if "go test" in demo.split("&&")[-1] or "go run" in demo.split("&&")[-1] else demo
    if not placed:
        print("no demo files listed; demo_cmd:", demo)
    clean = sh(demo)
    subprocess.check_call(["git", "-C", wt, "apply", os.path.join(src, "patch.diff")])
    broken = sh(demo)
    for p in placed:
        os.remove(os.path.join(wt, p))
    build = sh("go build ./... && go vet -tags verif ./internal/promapi ./cmd/pint >/dev/null 2>&1; go build -tags verif ./...")
    # own network namespace: cmd/pint watch tests bind fixed ports and collide with other suites running on this host
    suite = sh("unshare -rn sh -c 'ip link set lo up; go test -vet=off -count=1 -timeout 25m ./...'")
    if suite.returncode != 0:
        suite = sh("unshare -rn sh -c 'ip link set lo up; go test -vet=off -count=1 -timeout 25m ./...'")
    ok = clean.returncode == 0 and broken.returncode != 0 and build.returncode == 0 and suite.returncode == 0
    print(json.dumps(dict(demo_clean_exit=clean.returncode, demo_patched_exit=broken.returncode, build=build.returncode, suite=suite.returncode, confirmed=ok)))
    if not ok:
        for r in ran: print(r["cmd"], "->", r["exit"], "\n", r["tail"])
        sys.exit(1)
    d = os.path.join("/verif/seeded", dest); os.makedirs(d, exist_ok=True)
    for f in os.listdir(src):
        shutil.copy(os.path.join(src, f), os.path.join(d, f))
    meta["breaks_property"] = meta.get("property")
    meta["confirmed_by"] = dict(how="tools/confirm_seeded.py in a scratch worktree of /repo HEAD", ran=[dict(cmd=r["cmd"], exit=r["exit"]) for r in ran],
                                demo_passes_clean=True, demo_fails_patched=True, suite_passes_patched=True)
    json.dump(meta, open(os.path.join(d, "meta.json"), "w"), indent=1)
finally:
    subprocess.call(["git", "-C", "/repo", "worktree", "remove", "--force", wt])
