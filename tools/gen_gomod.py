#!/usr/bin/env python3
"""Generate go.mod files for the simulation harness from the repository's own go.mod.

  gen_gomod.py sim <repo> <out_go.mod>       -> module verifsim (requires pint, replace => <repo>)
  gen_gomod.py overlay <repo> <out_go.mod>   -> pint's go.mod + verifsim/rapid/porcupine (for go test -modfile in <repo>)

go.sum (repo's + the extra modules' lines) is written beside the output.
"""
import os, re, sys

EXTRA_REQ = [
    ("github.com/anishathalye/porcupine", "v1.3.0"),
    ("pgregory.net/rapid", "v1.3.0"),
]
EXTRA_SUM = ""  # go adds the missing lines itself from the module cache (-mod=mod)

def main():
    kind, repo, out = sys.argv[1], os.path.abspath(sys.argv[2]), sys.argv[3]
    sim = os.path.join(os.path.dirname(os.path.dirname(os.path.abspath(__file__))), "sim")
    src = open(os.path.join(repo, "go.mod")).read()
    body = re.sub(r"^module .*\n", "", src, count=1, flags=re.M)
    extra = "\nrequire (\n" + "".join(f"\t{m} {v}\n" for m, v in EXTRA_REQ) + ")\n"
    if kind == "sim":
        body = re.sub(r"^go .*\n", "go 1.26\n", body, count=1, flags=re.M)
        body = re.sub(r"^toolchain .*\n", "", body, flags=re.M)
        txt = "module github.com/cloudflare/pint/verifsim\n" + body + extra
        txt += "\nrequire github.com/cloudflare/pint v0.0.0\n\nreplace github.com/cloudflare/pint => " + repo + "\n"
    else:
        txt = "module github.com/cloudflare/pint\n" + body + extra
        txt += "\nrequire github.com/cloudflare/pint/verifsim v0.0.0\n\nreplace github.com/cloudflare/pint/verifsim => " + sim + "\n"
    open(out, "w").write(txt)
    sums = open(os.path.join(repo, "go.sum")).read()
    outsum = os.path.join(os.path.dirname(os.path.abspath(out)), os.path.basename(out)[:-4] + ".sum") if out.endswith(".mod") else out + ".sum"
    open(outsum, "w").write(sums + EXTRA_SUM)

main()
