#!/bin/bash
# Runs every seeded change under /verif/seeded through the check of the property it breaks
# and records the outcome in its meta.json and in seeded/RESULTS.md.
cd "$(dirname "$0")/.."
out=seeded/RESULTS.md
echo "# Seeded changes vs checks ($(date -u +%Y-%m-%dT%H:%MZ), /repo $(git -C /repo log --format=%h -1))" > $out
echo >> $out
echo "| seeded change | property | check exit (1 = detected) | violation class |" >> $out
echo "|---|---|---|---|" >> $out
for d in seeded/*/; do
  n=$(basename $d); id=$(python3 -c "import json;print(json.load(open('$d/meta.json'))['property'])")
  log=$(tools/mutant_test.sh $d/patch.diff $id ${1:-40} 2>&1)
  rc=$(echo "$log" | grep -o "check exit=[0-9]*" | cut -d= -f2)
  cls=$(echo "$log" | grep -o "\] $id: [a-z-]*" | head -1 | awk '{print $3}')
  echo "| $n | $id | ${rc:-?} | ${cls:--} |" >> $out
  python3 - "$d/meta.json" "${rc:-?}" "${cls:-}" <<'PY'
import json,sys
m=json.load(open(sys.argv[1])); m['check_result']={'exit':sys.argv[2],'class':sys.argv[3],'how':'tools/mutant_test.sh <patch> <property> (quick-tier generator, 40 s budget)'}
json.dump(m,open(sys.argv[1],'w'),indent=1)
PY
done
cat $out
