#!/usr/bin/env python3
"""instrument_locks.py <src.go> <dst.go>
Writes a copy of a Go source file in which every statement of the form `x.Lock()` / `x.RLock()` is preceded by a
scheduling point (`verifhook.At("lock", "<file>:<line>")`, inert unless the binary is built with -tags verif and a
simulator has installed its yield function). The copy is handed to the go tool with -overlay by the check driver;
nothing in the repository is touched. Purpose: between two scheduling points code runs atomically under the
cooperative scheduler, so a change that opens a window between two critical sections (reply first, store later;
snapshot, unlock, swap) is only visible if taking a lock is itself a scheduling point - for whatever locks the
file has at the time it is built, including ones a change adds.
Only files whose mutexes are never taken while another sync.Mutex is held may be listed by the driver (a parked
goroutine must not hold a mutex)."""
import re, sys, os
src, dst = sys.argv[1], sys.argv[2]
base = os.path.basename(src)
out = []
pat = re.compile(r'^(\s*)([A-Za-z_][\w.]*)\.(Lock|RLock)\(\)\s*$')
text = open(src).read()
for n, line in enumerate(text.split('\n'), 1):
    m = pat.match(line)
    if m and 'cache.mu' not in line:  # the metrics collector runs under the registry's own locks
        ind = m.group(1)
        out.append(f'{ind}if verifhook.Enabled {{')
        out.append(f'{ind}\tverifhook.At("lock", "{base}:{n}")')
        out.append(f'{ind}}}')
    out.append(line)
res = '\n'.join(out)
if 'internal/verifhook"' not in res:
    res = re.sub(r'import \(\n', 'import (\n\t"github.com/cloudflare/pint/internal/verifhook"\n', res, count=1)
open(dst, 'w').write(res)
