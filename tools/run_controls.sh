#!/bin/bash
# Negative controls: behaviour-preserving changes of pint (controls/<id>/patch.diff, written by independent
# sub-agents that saw only the property text) run through the check of the property they are near.
# Every one must leave the check at exit 0; exit 1 would be a false alarm, exit 2 a broken harness.
cd "$(dirname "$0")/.."
out=controls/RESULTS.md
echo "# Behaviour-preserving changes vs checks ($(date -u +%Y-%m-%dT%H:%MZ), /repo $(git -C /repo log --format=%h -1))" > $out
echo >> $out
echo "| change | property | check exit (0 = no alarm) | what it does |" >> $out
echo "|---|---|---|---|" >> $out
for d in controls/*/; do
  n=$(basename $d); id=${n%-*}
  log=$(tools/mutant_test.sh $d/patch.diff $id ${1:-40} 2>&1)
  rc=$(echo "$log" | grep -o "check exit=[0-9]*" | cut -d= -f2)
  sum=$(python3 -c "import json,sys;print(json.load(open('$d/meta.json')).get('summary','')[:160].replace('|','/').replace('\n',' '))")
  echo "| $n | $id | ${rc:-?} | $sum |" >> $out
done
cat $out
