#!/bin/bash
# usage: mutant_test.sh <patch.diff> <property id> [budget seconds]
# Applies the patch to a scratch worktree of /repo, runs the check against it, removes the worktree.
set -u
patch=$(readlink -f "$1"); id=$2; budget=${3:-30}
wt=$(mktemp -d /tmp/mt.XXXXXX); out=$(mktemp -d /tmp/mtout.XXXXXX)
rmdir "$wt"
git -C /repo worktree add -q "$wt" HEAD || exit 3
if ! git -C "$wt" apply "$patch"; then echo "PATCH DOES NOT APPLY"; git -C /repo worktree remove --force "$wt"; exit 3; fi
cd "$(dirname "$0")/.."
VERIF_REPO="$wt" VERIF_OUTDIR="$out" ./check "$id" --budget "$budget" 2>&1 | grep -v "^\[check\] .* seeds=" | tail -6
rc=${PIPESTATUS[0]}
echo "mutant_test: check exit=$rc (1 = detected)"
if [ -n "${KEEP_REPLAY:-}" ] && ls "$out"/replays/*/* >/dev/null 2>&1; then mkdir -p "$KEEP_REPLAY"; cp "$out"/replays/*/* "$KEEP_REPLAY"/; fi
git -C /repo worktree remove --force "$wt"; rm -rf "$out"
exit $rc
