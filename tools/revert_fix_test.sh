#!/bin/bash
# For every "fixed:" entry of known-findings.txt: undo that fix commit in a scratch worktree of /repo
# and run the property's check against it. A fixed entry suppresses nothing, so the check must
# report the violation again (exit 1). Writes seeded/FIXES-REVERTED.md.
cd "$(dirname "$0")/.."
out=seeded/FIXES-REVERTED.md
echo "# Fix commits undone one at a time vs checks ($(date -u +%Y-%m-%dT%H:%MZ), /repo $(git -C /repo log --format=%h -1))" > $out
echo >> $out
if [ -n "${VERIF_NO_CORPUS:-}" ]; then echo "Search alone (VERIF_NO_CORPUS=1: the regression corpus under replays/<id>/fixed-*.json was not replayed), ${VERIF_WORKERS:-16} workers, ${1:-60} s budget. With the corpus every row is 1 by construction." >> $out; else echo "With the regression corpus (replays/<id>/fixed-*.json) replayed first, as in every registered check." >> $out; fi
echo >> $out
echo "| fix commit | property | check exit (1 = violation reported again) | class |" >> $out
echo "|---|---|---|---|" >> $out
grep '^fixed:' known-findings.txt | while read -r _ prop hash rest; do
  id=${prop#property=}
  p=$(mktemp /tmp/rev.XXXXXX.diff)
  git -C /repo diff "$hash" "$hash^" -- . ':!*_test.go' > "$p"
  if ! git -C /repo apply --check "$p" 2>/dev/null; then
    # later commits build on this one: take the files it touched back to their state before it
    git -C /repo diff HEAD "$hash^" -- $(git -C /repo diff --name-only "$hash^" "$hash" | grep -v _test.go) > "$p"
  fi
  log=$(tools/mutant_test.sh "$p" "$id" ${1:-60} 2>&1)
  rc=$(echo "$log" | grep -o "check exit=[0-9]*" | cut -d= -f2)
  cls=$(echo "$log" | grep -o "\] $id: [a-z-]*" | head -1 | awk '{print $3}')
  if echo "$log" | grep -q "PATCH DOES NOT APPLY"; then cls="(does not revert cleanly: later commits build on it)"; fi
  echo "| $hash $(git -C /repo log --format=%s -1 $hash | cut -c1-80) | $id | ${rc:-?} | ${cls:--} |" >> $out
  rm -f "$p"
done
cat $out
