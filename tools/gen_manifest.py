#!/usr/bin/env python3
"""Regenerate /verif/MANIFEST.json from the table below (keeps it schema-valid at all times)."""
import json, os, subprocess
VERIF = os.path.dirname(os.path.dirname(os.path.abspath(__file__)))

CLAIMED = {
    "C14": dict(
        design="5.5",
        technique="deterministic simulation: seeded parking scheduler over pint's promapi goroutines + fake clock + simulated Prometheus servers; invariants at the server, porcupine linearizability of the recorded history",
        text="Seeded search over interleavings of 2-8 callers x worker pools x 1-3 simulated upstreams with delays, stalls and injected errors, run against the real internal/promapi code inside a testing/synctest bubble. Single-flight and the in-flight bound are invariants evaluated at the simulated server on every request; 'asked once per run', answer attribution, register-linearizability (porcupine) of caller-visible answers, the explicit Config TTL and bounded-time completion are checked over the recorded history. Sampling, not proof: a clean batch is evidence over the schedules and fault plans explored.",
        note="Trusted: Go runtime + testing/synctest (fake clock, quiescence), net.Pipe network stub, the simulated Prometheus API layer, porcupine. Map iteration order inside pint is not controlled by the schedule tape. The race detector is blind under the serialising scheduler, so the same scenarios also run free (scheduler off) in a -race build as an auxiliary observation; only data-race reports count there.",
    ),
    "C15": dict(
        design="5.6",
        technique="deterministic simulation with fault injection: exhaustive static sweep of fault assignments (21 behaviours x up to 3 upstreams x 5 endpoints) plus seeded per-connection fault sequences under concurrent callers; per-operation attempt traces judged against the failover contract",
        text="Every connection attempt of every operation is attributed (context value -> dialer -> server) and the behaviour the simulator applied to it is recorded; the oracle checks configured order, no skips/repeats, failover only after unavailability, mandatory failover after refused/timeout/5xx/server_error, query errors returned unchanged from the right upstream, and that total outages stay recognisable as unavailability. The static layer is enumerated completely inside the simulator; the dynamic layer is seeded search.",
        note="Trusted: as C14. Behaviours the property does not classify (404, truncated/garbage 200 bodies, 5xx with Prometheus-native JSON error types) are accepted either way and what pint does with them is recorded in the evidence. The FailoverGroup is built by pint's own config loader.",
    ),
}

CLAIMED["C13"] = dict(
    design="5.4",
    technique="deterministic simulation: the seeded scheduler decides the arrival order of every slice response at RangeQuery's merge loop (worker pool 1-16); result compared with one unsliced evaluation of a presence model and across schedules; one failing slice injected in a separate configuration",
    text="The real promapi.RangeQuery runs against a simulated server that answers query_range from a generated presence model; generated (start, end, step) include steps that do not divide 2h, steps above 2h and 4h and ends on/next to slice boundaries. Oracle: for every series and every point of the global step grid, covered-by-a-returned-range iff present in the model; number of ranges = number of maximal runs; ranges disjoint; identical result under 1-3 different response-arrival schedules of the same workload; with one failing slice an error (never a holed result). A scenario that kills or hangs the process is reported as crash-or-hang from the scenario file written before the run.",
    note="Trusted: as C14; the presence model answers on the request's own grid the way Prometheus does (float seconds parsed to milliseconds). Map iteration order inside MergeRanges is not schedule-controlled (it is followed by a sort today).",
)

CLAIMED["C16"] = dict(
    design="5.7",
    technique="deterministic simulation: real SeriesCheck -> real promapi -> simulated Prometheus API evaluated by the real PromQL engine over a generated in-memory TSDB; fake clock fixes 'now'; seeded schedules, failover/chaos/outage fault plans and multi-round watch histories; verdicts compared with direct evaluation on the same database",
    text="Clause (a) (no 'missing' verdict for a selector whose instant query returns series now) is asserted under every schedule, fault plan and round; clause (b) (a Bug for a selector whose metric has no sample in the lookback window, is not produced by a rule of the set and is not exempted) is asserted in fault-free runs and in runs where a healthy replica absorbs the faults, relaxed to 'Bug or unable-to-run-checks' when faults can legitimately prevent an answer. Later rounds advance the clock by 15 min - 4 h and only append samples (no back-fill), so stale cached answers surface as false verdicts.",
    note="Trusted: as C14, plus the vendored PromQL engine (real code) over a hand-written storage.Queryable and a hand-written HTTP/JSON API layer (stub). Expression shapes with fallbacks (or / unless / absent) and ALERTS selectors are excluded from clause (b) as documented by pint. Round gaps are a harness bound (>= 15 min), not a copy of pint's cache constants.",
)

CLAIMED["C11"] = dict(
    design="5.3",
    technique="deterministic simulation: the whole `pint lint` command runs in process inside a bubble; a seeded parking scheduler decides every scan-worker / promapi-worker / server interleaving for --workers 2..64; console, JSON and exit status compared byte-for-byte with the --workers 1 FIFO run; same-tape triple execution for map-order effects; auxiliary uncontrolled -race runs for the data-race clause",
    text="Generated multi-file rule sets (several problems per rule, identical problems across files, check kinds instantiated several times, 0-2 simulated Prometheus servers answered by the real PromQL engine) are linted once with one worker and FIFO order and then under a seeded schedule with N workers; every observable (stderr, --json file, returned error) must be identical, three times over for the same tape. The data-race clause cannot be decided under a serialising scheduler, so the same workloads also run free (real clock, GOMAXPROCS 1/4/16) in a -race build: that part is observation and labelled so in the evidence.",
    note="Trusted: as C14. Each in-process run starts from emptied sync.Pools with GC off, so that parser-pool history of earlier runs in the same test process cannot leak into a later run (DESIGN 'Observations'). Data-race reports are sound but not replayable from a seed.",
)

CLAIMED["C07"] = dict(
    design="5.2",
    technique="deterministic simulation: the lint pipeline and the watch scan loop run in process under a simulated clock positioned around snooze deadlines; relational oracle (same files and instant, one control comment inserted) built from the real check instances' own statements",
    text="For a generated rule set (with control comments already present, enable lists and locked blocks in the config, 0-2 simulated Prometheus servers) one reported problem is targeted; a disable / snooze / file/disable / file/snooze comment is inserted with one of the three spellings of the check, at one of the placements, with a snooze time 2 s - 400 d before or after the simulated instant in four timestamp formats. The report with the comment must equal the report without it minus exactly the statements of the targeted check instances on the targeted rule(s) (locked instances excepted), modulo the line shift; expired snoozes must change nothing. In watch mode the scan loop crosses the snooze deadline and each iteration must equal the one-shot result for its instant.",
    note="Trusted: as C14. Which instance says what is obtained by asking pint's own check instances one by one in the uncommented run (validated against the pipeline's report on every run). Timeless clauses (disable, file/disable, locked) are exercised because every scenario needs them; the simulator's contribution is the clock and the watch loop. File-level comments against locked blocks are unspecified by the property and skipped. Syntax-error column ranges are excluded (parser-pool artefact, DESIGN 'Observations').",
)

CLAIMED["C03"] = dict(
    design="5.1",
    technique="simulated two-actor commit histories (feature author and base-branch maintainers interleaved, rebases, simulated commit clock) in a real scratch git repository; the real `pint ci` binary is evaluated after every feature commit and compared with a reference classifier over the generator's own rule-file model",
    text="Histories of 1-7 commits over up to 6 rule files are generated from the operation alphabet of the property (add / modify / delete / pure rename of files; add / modify / delete / reorder / rename of rules; comment-only and whitespace-only edits; file- and rule-level control comments; edit-then-revert; base branch advancing; rebase). After every feature commit `pint ci --json` runs under a config with one `rule { match { state = [S] } report {} }` marker per state plus a state-less marker check; every rule at HEAD must carry exactly the state the reference computes from fork-point and HEAD content following the rename lineage, and the default-state check must have run exactly on the changed rules.",
    note="Trusted: git 2.39 (real), the harness's YAML renderer and reference classifier (its own data model, not pint's parser). Preconditions, stated because the reference is ambiguous outside them: renames are pure `git mv` commits; a file version holding the same rule content twice, or one name several times for a changed rule, accepts any consistent state; moved-and-modified rules accept 'renamed' or 'modified'. No faults are injected (the property quantifies over histories). The state markers are observed without --offline because pint registers report checks under the name query/cost (DESIGN 'Observations').",
)

CLAIMED["C20"] = dict(
    design="5.9",
    technique="simulated removal histories (feature author deleting rules and files, re-adding providers elsewhere, renaming files, breaking YAML) in a real scratch git repository; real `pint ci` binary after every commit; rule/dependency warnings compared with a reference dependency graph computed from the generator's model with the Prometheus PromQL parser",
    text="Rule sets with random cross-references (recording rules used by recording rules and alerts, ALERTS / ALERTS_FOR_STATE selectors with equality, regex and negative alertname matchers, two alerts in one expression, one name shared by a recording rule and an alert, duplicate providers in several files) lose random rules and files over 1-3 commits. For every rule removed from its file lineage: exactly when some rule remaining at HEAD selects what it produced and no rule of the same kind and name remains, one Warning must be reported on the removed rule's fork-point path and lines, listing exactly the dependants (name, path, expression line); otherwise none; and no warning anywhere else.",
    note="Trusted: as C03. A file that no longer parses at HEAD makes 'remaining' ambiguous: expectations that differ between counting and not counting its rules are skipped (counted in the evidence). No faults are injected.",
)

CLAIMED["C17"] = dict(
    design="5.8",
    technique="deterministic simulation with fault injection: real reporter.Submit with the real GitHub (go-github) and GitLab (client-go + retryablehttp) reporters over an in-memory network against stateful simulated platforms, multi-round histories (developer pushes, foreign comments, replies in pint's threads) with API faults, rate limits, stalls and crashes after the k-th request under a fake clock; safety, coverage, convergence and idempotence checked against the simulated store",
    text="Each round the developer may push to a real scratch repository; the problems come from pint's real CI discovery and checks on those files, the platform's file patches from `git diff`. The run's API requests meet 5xx, 429 / 403 rate limits with reset headers, stalled responses and a crash (everything after the k-th request is refused; only the store survives). After every run: nothing equal to an existing comment was created (positioned or general), nothing foreign or still-reported was deleted, creations stay within maxComments. After every completed run: every problem on a PR file is covered by one of pint's comments or the budget was exhausted; on GitLab no stale pint comment remains. After pushes and faults stop, runs must go quiet within ceil(pending/maxComments)+1 runs and stay quiet (two consecutive runs that create and delete nothing), and nothing deleted may be re-created for the same commit.",
    note="Trusted: the simulated GitHub / GitLab REST servers (stubs modelling comment identity, diff-line validation, body normalisation, pagination, thread replies), git 2.39 (real). No scheduler is needed (the client is sequential); the bubble supplies the fake clock for timeouts, back-off and rate-limit sleeps. Comment placement is demanded only when every line of the problem was added by the diff. Lost acknowledgements are supported by the stub but not part of the quantifier and not generated.",
)

# Families and rules added after the first version of each harness (DESIGN 10, 13).
ADDED = {
    "C13": " Also: the same query is asked again up to two steps later on a warm cache and must equal a cold-cache answer at that moment; once the cache holds the slices of one window, that window and a second window of the same expression (same end and step) are asked at the same time by two callers and each must equal what it returns alone; slice faults include 499/canceled and a 200 body that ends cleanly after `\"result\":[`.",
    "C14": " Taking one of promapi's leaf mutexes is a scheduling point (instrumented copies of cache.go, failover.go, prometheus.go handed to the go tool with -overlay at build time), and a schedule may starve one kind of scheduling point. The scheduler can also hold every parked task back while simulated time passes (pauses), so deadlines, GC ticks and expiries can overtake a response.",
    "C15": " An upstream is judged by its last word: asking the same upstream again after unavailability is allowed, after an answer it is not. A third family runs the whole `pint lint` command in process during a total outage or with only the last upstream of every server healthy and compares report, console output and exit status with a run against healthy servers.",
    "C16": " The database keeps growing while pint is asking (samples are appended up to the instant of every request); some scenarios give all selectors one long common prefix; rules pairing two bare metrics without a fallback are generated on purpose.",
    "C11": " Slow-but-healthy servers (150-450 ms per answer, timeout 2 s) are part of the workload. A run that never comes back ends the worker at once (the process is not trustworthy afterwards) and is reported without minimisation.",
    "C07": "",
    "C03": " Histories can merge the base branch into the branch under review (files both sides changed are merged by git; trees are then read back from the repository); branch names are drawn. Scripted multi-commit motifs (a path freed by a deletion or rename taken over by another file that is edited before and after, rename-then-edit, rename-and-back) are mixed into the random histories.",
    "C20": " Commits on the base branch after the fork and merges of it into the branch under review; branch names are drawn. Histories of up to 6 commits with the same scripted motifs, an edit that removes nothing, and a configuration in which only `relaxed/` is parsed in relaxed mode (bare lists there, strict documents elsewhere).",
    "C17": " The simulated GitHub paginates its listings like api.github.com (30 per page, Link header), pull requests can be big (25-45 other changed files) and gather more than 30 comments. Faults include a create that is applied but answered after the reporter's timeout; duplicates are judged in those rounds too. Forge requests are scheduling points of the seeded scheduler.",
}
for _k, _v in ADDED.items():
    CLAIMED[_k]["text"] += _v
    CLAIMED[_k]["note"] += " Before the search every check replays the minimised histories of the defects recorded as fixed (replays/<id>/fixed-*.json); one that fails again is reported as a violation at once."


NA = {
    "C01": "pure function of the file bytes (agreement of two acceptors): no schedule, clock, fault or peer for a simulator to own; deciding it is differential input generation, which this task's technique family excludes",
    "C02": "totality of a pure function of (bytes, parser mode): nothing time-, schedule- or fault-dependent in the anchored code",
    "C04": "soundness of a static analysis against PromQL evaluation: quantified over expressions x databases only; single-threaded and timeless",
    "C05": "exit status is a pure function of reported severities and flags; scheduling independence is C11's subject, outages C15's",
    "C06": "position reconstruction is a pure function of the YAML text",
    "C08": "check naming/enablement is a pure function of configuration and rule text",
    "C09": "match/ignore evaluation is a pure boolean function of (block, rule, command)",
    "C10": "the masking reader is a deterministic line state machine; the two-run relation is over inputs only",
    "C12": "same static analyser as C04: pure function of (expression, database)",
    "C18": "relation between two pure functions of (config, rule text); no concurrency, time or I/O faults involved",
    "C19": "relation between two pure parsers of one document",
}

PENDING = {
    "C03": "simulation target (two-actor commit histories, DESIGN 5.1); harness not built yet - not claimed until it is",
    "C07": "simulation target for its time clauses (snooze deadlines under the simulated clock, DESIGN 5.2); harness not built yet - not claimed until it is",
    "C11": "simulation target (scan worker interleavings, DESIGN 5.3); harness not built yet - not claimed until it is",
    "C13": "simulation target (slice response arrival orders, DESIGN 5.4); harness not built yet - not claimed until it is",
    "C16": "simulation target (real PromQL engine behind the simulated API, DESIGN 5.7); harness not built yet - not claimed until it is",
    "C17": "simulation target (stateful simulated GitHub/GitLab over repeated runs, DESIGN 5.8); harness not built yet - not claimed until it is",
    "C20": "simulation target (removal histories, DESIGN 5.9); harness not built yet - not claimed until it is",
}

def main():
    checks = []
    for pid, c in sorted(CLAIMED.items()):
        checks.append(dict(
            property_id=pid,
            quick_cmd=f"./check {pid} --tier quick",
            thorough_cmd=f"./check {pid} --tier thorough",
            evidence_file=f"/verif/evidence/{pid}.json",
            replay_cmd_template=f"./check {pid} --replay {{path}}",
            engine="detsim",
            level_claimed=dict(category="exploration", text=c["text"], design_ref="DESIGN.md section " + c["design"]),
            level_note=c["note"],
            technique=c["technique"],
        ))
    na = [dict(property_id=k, reason=v) for k, v in sorted({**NA, **{k: v for k, v in PENDING.items() if k not in CLAIMED}}.items())]
    hook = subprocess.check_output(["git", "-C", "/repo", "log", "--format=%H", "--grep=^verif:"], text=True).split()
    m = dict(
        version=1,
        setup_cmd="./check build",
        hooks=dict(
            guard="verif",
            enable="go1.26.8 test -c -tags verif (GOTOOLCHAIN=local GOFLAGS=-mod=mod GOPROXY=off); harness code outside /repo via replace / -overlay / -modfile",
            baseline_off_cmd="cd /repo && GOFLAGS=-mod=mod GOPROXY=off go test -vet=off -count=1 -timeout 25m ./...",
            source_commits=hook,
            add_only=True,
        ),
        engines=[dict(name="detsim", path="/verif/sim", serves_properties=sorted(CLAIMED),
                      kind_free_text="deterministic simulation kernel: seeded parking scheduler inside a testing/synctest bubble (fake clock), in-memory network (simnet), simulated Prometheus/forge servers, rapid as the only choice source with shrinking, replay files")],
        checks=checks,
        not_applicable=na,
        notes="Exit codes of ./check: 0 held, 1 VIOLATION (replayed twice in fresh processes first), 2 infrastructure trouble (never a verdict). VERIF_SEED and VERIF_TIER are honoured. Known findings: /verif/known-findings.txt.",
    )
    json.dump(m, open(os.path.join(VERIF, "MANIFEST.json"), "w"), indent=1)

main()
